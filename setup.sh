#!/bin/bash
# Offline setup: nothing to fetch or build; verify the interpreter and imports the checks need.
set -e
cd /verif
mkdir -p evidence replays .cache
PYTHONPATH=/repo:/verif /venv/bin/python - <<'PY'
import asyncio, bellows.ash, bellows.uart, bellows.ezsp, zigpy
import dst.loop, dst.tape, dst.refash, dst.line
print("setup ok: python", __import__("sys").version.split()[0], "zigpy", zigpy.__version__ if hasattr(zigpy, "__version__") else "?")
PY
