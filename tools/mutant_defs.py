"""Mutants of bellows used by the sensitivity self-test (textual edits on a scratch copy)."""
A = "bellows/ash.py"

MUTANTS = [
    # ---------------- C01
    dict(name="ack_any_completes", props=["C01", "C05"], edits=[(A,
        "        for ack_num_offset in range(-TX_K, 0):\n            ack_num = (frame.ack_num + ack_num_offset) % 8\n",
        "        for ack_num_offset in range(-8, 0):\n            ack_num = (frame.ack_num + ack_num_offset) % 8\n")]),
    dict(name="ack_offset_off_by_one", props=["C01", "C05"], edits=[(A,
        "        for ack_num_offset in range(-TX_K, 0):", "        for ack_num_offset in range(-TX_K + 1, 1):")]),
    dict(name="deliver_retx_duplicates", props=["C01", "C04", "C02"], edits=[(A,
        "        if frame.frm_num == self._rx_seq:\n            self._rx_seq = (frame.frm_num + 1) % 8",
        "        if frame.frm_num == self._rx_seq or frame.re_tx:\n            self._rx_seq = (frame.frm_num + 1) % 8")]),
    dict(name="no_rx_seq_advance", props=["C01", "C04"], edits=[(A,
        "            self._rx_seq = (frame.frm_num + 1) % 8\n            self._write_frame(AckFrame(res=0, ncp_ready=0, ack_num=self._rx_seq))\n\n            self._ezsp_protocol.data_received",
        "            self._write_frame(AckFrame(res=0, ncp_ready=0, ack_num=(frame.frm_num + 1) % 8))\n\n            self._ezsp_protocol.data_received")]),
    dict(name="new_frmnum_every_retry", props=["C01", "C05"], edits=[(A,
        "                    if frm_num is None:\n                        frm_num = self._tx_seq",
        "                    if True:\n                        frm_num = self._tx_seq")]),
    dict(name="no_shield", props=["C01"], edits=[(A,
        "        await asyncio.shield(\n            create_eager_task(", "        await (\n            create_eager_task(")]),
    dict(name="tx_k_2", props=["C01", "C05"], edits=[(A, "TX_K = 1  #", "TX_K = 2  #")]),
    dict(name="retx_flag_never", props=["C05"], edits=[(A, "re_tx=(attempt > 0),", "re_tx=False,")]),
]
