#!/bin/bash
# Run every archived seeded change against the check of the property it breaks (4 at a time); prints one line per change.
cd "$(dirname "$0")/.." || exit 2
ls seeded | xargs -P 4 -I{} sh -c 'VERIF_JOBS=4 tools/seeded.py run {} 2>&1 | grep "^SEEDED" | cut -c1-260'
