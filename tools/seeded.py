#!/venv/bin/python
"""Confirm and archive a seeded change produced by an independent sub-agent.

usage: tools/seeded.py ingest <name> <worktree> <PROP> [--needs TEXT]
           confirm in the scratch worktree: baseline suite passes with the change, the
           demonstration fails with it and passes without it; then store
           /verif/seeded/<name>/{patch.diff, demo_*.py, meta.json}
       tools/seeded.py run <name> [PROP ...] [-- extra check args]
           git -C /repo apply the patch, run ./check PROP (default: the property it breaks),
           undo with git -C /repo checkout -- . ; records the result in meta.json
"""
import glob
import json
import os
import shutil
import subprocess
import sys

VERIF = os.path.dirname(os.path.dirname(os.path.abspath(__file__)))
SEEDED = os.path.join(VERIF, "seeded")
DESELECT = ["--deselect", "tests/test_application.py", "-rf"]
KNOWN_FAIL = {"tests/test_uart.py::test_connect[hardware]", "tests/test_uart.py::test_connect[software]",
              "tests/test_uart.py::test_connect_threaded", "tests/test_uart.py::test_connection_lost_reset_error_propagation"}


def sh(cmd, cwd=None, env=None, timeout=1800):
    p = subprocess.run(cmd, cwd=cwd, env=env, capture_output=True, text=True, timeout=timeout)
    return p.returncode, p.stdout + p.stderr


def ingest(name, wt, prop, needs):
    env = dict(os.environ, PYTHONPATH=wt)
    # git stash is shared between worktrees: never use it here; the agent's patch.diff is authoritative
    patch = open(os.path.join(wt, "patch.diff")).read()
    sh(["git", "checkout", "--", "bellows"], cwd=wt)
    rc, out = sh(["git", "apply", "patch.diff"], cwd=wt)
    if rc:
        print("patch.diff does not apply in", wt, out)
        return 1
    demos = sorted(glob.glob(os.path.join(wt, "demo_*.py")))
    if not demos:
        print("no demo in", wt)
        return 1
    demo = demos[0]
    rc, out = sh(["/venv/bin/python", "-c", "import bellows; print(bellows.__file__)"], cwd=wt, env=env)
    assert out.strip().startswith(wt), out
    # 1. suite with the change
    rc_suite, out = sh(["/venv/bin/python", "-m", "pytest", "-q", "-p", "no:cacheprovider", "--timeout=900", "tests"] + DESELECT, cwd=wt, env=env)
    tail = out.strip().splitlines()[-1] if out.strip() else ""
    failed = {l.split()[1] for l in out.splitlines() if l.startswith("FAILED ")}
    rc_suite = 0 if (failed <= KNOWN_FAIL and " 254 passed" in tail) else 1
    print("suite with change:", rc_suite, tail, sorted(failed - KNOWN_FAIL))
    # 2. demo with the change

    def run_demo():
        if "def test_" in open(demo).read():
            return sh(["/venv/bin/python", "-m", "pytest", "-q", "-p", "no:cacheprovider", "--timeout=600", demo], cwd=wt, env=env)
        return sh(["/venv/bin/python", demo], cwd=wt, env=env, timeout=900)

    rc_with, out_with = run_demo()
    print("demo with change: rc", rc_with)
    # 3. demo without
    sh(["git", "apply", "-R", "patch.diff"], cwd=wt)
    try:
        assert not sh(["git", "diff", "--", "bellows"], cwd=wt)[1].strip()
        rc_without, out_without = run_demo()
    finally:
        sh(["git", "apply", "patch.diff"], cwd=wt)
    print("demo without change: rc", rc_without)
    ok = rc_suite == 0 and rc_with != 0 and rc_without == 0
    if not ok:
        print("NOT CONFIRMED")
        print(out_with[-1500:])
        print(out_without[-1500:])
        return 1
    d = os.path.join(SEEDED, name)
    os.makedirs(d, exist_ok=True)
    open(os.path.join(d, "patch.diff"), "w").write(patch)
    shutil.copy(demo, os.path.join(d, os.path.basename(demo)))
    meta = {
        "name": name, "breaks_property": prop, "needs_to_manifest": needs,
        "confirmed": {
            "baseline_suite_with_change": f"rc={rc_suite}: {tail}",
            "demo_with_change_rc": rc_with, "demo_without_change_rc": rc_without,
            "commands": ["PYTHONPATH=<wt> /venv/bin/python -m pytest -q -p no:cacheprovider --timeout=900 tests " + " ".join(DESELECT),
                         "PYTHONPATH=<wt> /venv/bin/python " + os.path.basename(demo) + " (pytest if it defines tests)"],
        },
        "checks": {},
    }
    json.dump(meta, open(os.path.join(d, "meta.json"), "w"), indent=1)
    print("CONFIRMED ->", d)
    return 0


def run(name, props, extra):
    """Apply the change to a scratch copy of /repo/bellows (outside /repo and /verif) and run the checks against it
    through VERIF_REPO: equivalent to `git -C /repo apply` + check + `git -C /repo checkout -- .`, without disturbing
    background runs that read /repo."""
    import shutil
    import tempfile

    d = os.path.join(SEEDED, name)
    meta = json.load(open(os.path.join(d, "meta.json")))
    props = props or [meta["breaks_property"]]
    pf = os.path.join(d, "patch.rebased.diff") if os.path.exists(os.path.join(d, "patch.rebased.diff")) else os.path.join(d, "patch.diff")
    scratch = tempfile.mkdtemp(prefix="bellows-seeded-")
    try:
        shutil.copytree("/repo/bellows", os.path.join(scratch, "bellows"))
        rc, out = sh(["git", "apply", pf], cwd=scratch)
        if rc:
            print("patch does not apply:", out)
            return 2
        env = dict(os.environ, VERIF_REPO=scratch, VERIF_REPLAY_DIR=os.path.join(scratch, "replays"))
        for prop in props:
            rc, out = sh([os.path.join(VERIF, "check"), prop, "--no-evidence"] + extra, cwd=VERIF, env=env, timeout=3600)
            caught = rc == 1 and f"VIOLATION property={prop}" in out
            lines = [l for l in out.splitlines() if l.startswith("clause=")]
            summ = [l for l in out.splitlines() if l.startswith(prop + " ")]
            print(f"SEEDED {name:24s} {prop} rc={rc} {'CAUGHT' if caught else 'MISSED'} {lines[0][:220] if lines else ''}")
            if rc == 2:
                print(out[-2500:])
            meta["checks"][prop + (" " + " ".join(extra) if extra else "")] = {
                "rc": rc, "caught": caught, "first_violation": lines[0][:300] if lines else None, "summary": summ[-1] if summ else None}
            for l in out.splitlines():
                if l.startswith("VIOLATION") and "replay=" in l:
                    rp = l.split("replay=")[1].strip()
                    if os.path.exists(rp) and os.path.basename(rp) not in open(os.path.join(VERIF, "known_findings.json")).read():
                        os.remove(rp)
    finally:
        shutil.rmtree(scratch, ignore_errors=True)
    json.dump(meta, open(os.path.join(d, "meta.json"), "w"), indent=1)
    return 0


def main():
    a = sys.argv[1:]
    if a[0] == "ingest":
        needs = ""
        if "--needs" in a:
            i = a.index("--needs")
            needs = a[i + 1]
            a = a[:i]
        return ingest(a[1], a[2], a[3].upper(), needs)
    if a[0] == "run":
        extra = []
        if "--" in a:
            i = a.index("--")
            a, extra = a[:i], a[i + 1:]
        return run(a[1], [p.upper() for p in a[2:]], extra)
    print(__doc__)
    return 2


if __name__ == "__main__":
    sys.exit(main())
