#!/bin/bash
# thorough tier with a reduced random budget for the checks given on the command line (development aid; evidence is NOT written)
cd "$(dirname "$0")/.." || exit 2
for c in "$@"; do VERIF_BUDGET_S=${VERIF_BUDGET_S:-200} ./check "$c" --tier thorough --no-evidence 2>&1 | grep "thorough:\|VIOLATION\|HARNESS\|clause=\|WARNING probes" | cut -c1-400; done
