#!/venv/bin/python
"""Sensitivity self-test: apply textual mutants to a scratch copy of /repo/bellows
(outside /repo and /verif), run a check against it, expect a VIOLATION.

usage: tools/mutants.py <PROP> [mutant-name ...] [--tier quick] [-- extra check args]
"""
import json
import os
import shutil
import subprocess
import sys
import tempfile

VERIF = os.path.dirname(os.path.dirname(os.path.abspath(__file__)))
sys.path.insert(0, VERIF)
from tools.mutant_defs import MUTANTS  # noqa: E402


def main():
    args = sys.argv[1:]
    extra = []
    if "--" in args:
        i = args.index("--")
        args, extra = args[:i], args[i + 1:]
    prop = args[0].upper()
    names = args[1:]
    muts = [m for m in MUTANTS if prop in m["props"] and (not names or m["name"] in names)]
    results = []
    for m in muts:
        d = tempfile.mkdtemp(prefix="bellows-mut-")
        try:
            shutil.copytree("/repo/bellows", os.path.join(d, "bellows"))
            for path, old, new in m["edits"]:
                p = os.path.join(d, path)
                s = open(p).read()
                if s.count(old) != 1:
                    print(f"MUTANT {m['name']}: pattern occurs {s.count(old)} times in {path}")
                    results.append((m["name"], "bad-pattern"))
                    break
                open(p, "w").write(s.replace(old, new))
            else:
                env = dict(os.environ, VERIF_REPO=d, VERIF_REPLAY_DIR=os.path.join(d, "replays"))
                p = subprocess.run([os.path.join(VERIF, "check"), prop, "--no-evidence"] + extra, env=env, capture_output=True, text=True)
                caught = p.returncode == 1 and "VIOLATION" in p.stdout
                lines = [l for l in p.stdout.splitlines() if l.startswith("clause=")]
                print(f"MUTANT {m['name']:28s} rc={p.returncode} {'CAUGHT' if caught else 'MISSED'} {lines[0][:150] if lines else ''}")
                if p.returncode == 2:
                    print(p.stdout[-1500:])
                results.append((m["name"], "caught" if caught else f"missed rc={p.returncode}"))
                # remove replay files written for the mutant
                for l in p.stdout.splitlines():
                    if l.startswith("VIOLATION") and "replay=" in l:
                        rp = l.split("replay=")[1].strip()
                        if os.path.exists(rp) and os.path.basename(rp) not in open(os.path.join(VERIF, "known_findings.json")).read():
                            os.remove(rp)
        finally:
            shutil.rmtree(d, ignore_errors=True)
    missed = [r for r in results if r[1] != "caught"]
    print(f"{prop}: {len(results) - len(missed)}/{len(results)} mutants caught")
    return 1 if missed else 0


if __name__ == "__main__":
    sys.exit(main())
