#!/venv/bin/python
"""For every `fix:` commit recorded in known_findings.json: revert it in a scratch copy of /repo/bellows (outside /repo and /verif) and run the
check of its property against that copy: the check must report a VIOLATION again (through the committed witness or the search).
usage: tools/revert_fixes.py"""
import json
import os
import shutil
import subprocess
import sys
import tempfile

VERIF = os.path.dirname(os.path.dirname(os.path.abspath(__file__)))
kf = json.load(open(os.path.join(VERIF, "known_findings.json")))
bad = 0
for e in kf["findings"]:
    if e.get("status") != "fixed":
        continue
    d = tempfile.mkdtemp(prefix="bellows-revert-")
    try:
        shutil.copytree("/repo/bellows", os.path.join(d, "bellows"))
        diff = subprocess.run(["git", "-C", "/repo", "show", e["commit"], "--", "bellows"], capture_output=True, text=True).stdout
        p = subprocess.run(["git", "apply", "-R", "-"], input=diff, cwd=d, capture_output=True, text=True)
        if p.returncode:
            # a later fix: commit built on this one (same lines): undo the later ones that touch the same files first, newest first
            files = [l[6:] for l in diff.splitlines() if l.startswith("+++ b/")]
            later = subprocess.run(["git", "-C", "/repo", "log", "--format=%h", f"{e['commit']}..HEAD", "--"] + files, capture_output=True, text=True).stdout.split()
            ok_all = True
            for h in later:
                dl = subprocess.run(["git", "-C", "/repo", "show", h, "--"] + files, capture_output=True, text=True).stdout
                if subprocess.run(["git", "apply", "-R", "-"], input=dl, cwd=d, capture_output=True, text=True).returncode:
                    ok_all = False
                    break
            if ok_all and later:
                p = subprocess.run(["git", "apply", "-R", "-"], input=diff, cwd=d, capture_output=True, text=True)
        if p.returncode:
            # context moved by later fixes: fall back to undoing the changed lines textually (single-hunk one-line fixes)
            minus = [l[1:] for l in diff.splitlines() if l.startswith("-") and not l.startswith("---")]
            plus = [l[1:] for l in diff.splitlines() if l.startswith("+") and not l.startswith("+++")]
            fn = [l[6:] for l in diff.splitlines() if l.startswith("+++ b/")]
            if len(minus) == 1 and len(plus) == 1 and len(fn) == 1:
                src = open(os.path.join(d, fn[0])).read()
                if src.count(plus[0]) == 1:
                    open(os.path.join(d, fn[0]), "w").write(src.replace(plus[0], minus[0]))
                    p = subprocess.CompletedProcess([], 0)
        if p.returncode:
            print(f"{e['property']} {e['commit']}: cannot revert ({p.stderr.strip()[:100]})")
            bad += 1
            continue
        env = dict(os.environ, VERIF_REPO=d, VERIF_JOBS="8", VERIF_REPLAY_DIR=os.path.join(d, "replays"))
        r = subprocess.run([os.path.join(VERIF, "check"), e["property"], "--no-evidence"], cwd=VERIF, env=env, capture_output=True, text=True, timeout=1800)
        lines = [l for l in r.stdout.splitlines() if l.startswith("clause=")]
        ok = r.returncode == 1 and "VIOLATION" in r.stdout
        print(f"{e['property']} {e['commit']} reverted: {'DETECTED' if ok else 'NOT DETECTED rc=%d' % r.returncode} {lines[0][:160] if lines else ''}")
        for l in r.stdout.splitlines():
            if l.startswith("VIOLATION") and "replay=" in l:
                rp = l.split("replay=")[1].strip()
                if os.path.exists(rp) and os.path.basename(rp) not in open(os.path.join(VERIF, "known_findings.json")).read():
                    os.remove(rp)
        bad += 0 if ok else 1
    finally:
        shutil.rmtree(d, ignore_errors=True)
sys.exit(1 if bad else 0)
