#!/venv/bin/python
"""Run the whole-stack soak (dst/soak.py) for a range of seeds on all cores and list every violation key with its first seeds (development aid:
the soak is a scenario of nine checks, each of which only reports the clauses of its own property).
usage: PYTHONPATH=/repo:/verif tools/soak_sample.py FIRST LAST"""
import collections
import concurrent.futures as cf
import multiprocessing
import os
import sys

sys.path[:0] = [os.environ.get("VERIF_REPO", "/repo"), os.path.dirname(os.path.dirname(os.path.abspath(__file__)))]


def one(seed):
    from dst import soak
    from dst.tape import Tape

    try:
        r = soak.run({}, Tape(seed=seed))
    except Exception as e:  # noqa: BLE001
        return seed, [("HARNESS", type(e).__name__, repr(e))], {}
    return seed, r["viol"], r["probes"]


def main():
    a, b = int(sys.argv[1]), int(sys.argv[2])
    seen = collections.defaultdict(list)
    probes = collections.Counter()
    with cf.ProcessPoolExecutor(max_workers=16, mp_context=multiprocessing.get_context("fork")) as ex:
        for seed, viol, pr in ex.map(one, range(a, b), chunksize=8):
            probes.update(pr)
            for v in viol:
                seen[(v[0], v[1])].append((seed, v[2][:300]))
    for k, v in sorted(seen.items()):
        print(len(v), k, v[0])
    print({k: v for k, v in probes.items() if k.startswith("soak.")})
    return 0


if __name__ == "__main__":
    sys.exit(main())
