#!/bin/bash
# every hand-written mutant of every claimed property (tools/mutant_defs.py) against the quick tier of its check; prints one line per mutant
cd "$(dirname "$0")/.." || exit 2
for p in C01 C02 C03 C04 C05 C06 C08 C09 C10 C11 C12 C13 C14 C15 C16 C17 C19 C20; do tools/mutants.py $p 2>&1 | grep "^MUTANT\|mutants caught" | cut -c1-220; done
