#!/venv/bin/python
"""Write a replay (witness) file for a given scenario/params/tape: tools/mkwitness.py PROP SCENARIO 'PARAMS-JSON' CLAUSE [TAPE-JSON|seed:N]"""
import json
import os
import sys

VERIF = os.path.dirname(os.path.dirname(os.path.abspath(__file__)))
sys.path[:0] = [os.environ.get("VERIF_REPO", "/repo"), VERIF]
from dst import runner  # noqa: E402

pid, scenario, params, clause = sys.argv[1].upper(), sys.argv[2], json.loads(sys.argv[3]), sys.argv[4]
tape, seed = [], None
if len(sys.argv) > 5:
    if sys.argv[5].startswith("seed:"):
        seed, tape = int(sys.argv[5][5:]), None
    else:
        tape = json.loads(sys.argv[5])
prop = runner.load_prop(pid)
spec = {"scenario": scenario, "params": params, "seed": seed, "tape": tape}
res, t = runner.run_one(prop, spec)
hits = [v for v in res["viol"] if v[0] == clause]
if not hits:
    print("no violation of", clause, "- got", res["viol"][:3])
    sys.exit(1)
mini = runner.minimise(prop, spec, clause) if seed is not None else None
c, k, text = hits[0]
if mini:
    k, text = mini["key"], mini["text"]
path = runner.write_replay(pid, spec, clause, k, text, mini, prop)
print(path, k, text)
