#!/venv/bin/python
"""Generate /verif/MANIFEST.json from the property modules that exist."""
import importlib
import json
import os
import sys

VERIF = os.path.dirname(os.path.dirname(os.path.abspath(__file__)))
sys.path[:0] = ["/repo", VERIF]

ALL = [f"C{i:02d}" for i in range(1, 21)]
NA = {
    "C07": "pure function of (version, command, values): no schedule, clock, fault or interleaving in the statement; an independent oracle would mean re-specifying ~2900 schemas (DESIGN.md section 5). Header layouts and the commands the workloads use are covered incidentally by the framing-aware reference NCP.",
    "C18": "total pure function over 2x256 status values: nothing for a simulator to schedule or break (DESIGN.md section 5). The codes that steer behaviour are produced by the NCP model in C12/C14/C15/C17.",
}
BASELINE = "cd /repo && /venv/bin/python -m pytest -ra -q -p no:cacheprovider --timeout=900 --continue-on-collection-errors"

checks = []
na = []
engines = {}
for pid in ALL:
    if pid in NA:
        na.append({"property_id": pid, "reason": NA[pid]})
        continue
    try:
        m = importlib.import_module(f"dst.props.{pid.lower()}")
    except ModuleNotFoundError:
        na.append({"property_id": pid, "reason": "not claimed: the check for this property is not finished (see DESIGN.md, fallback rule); not a statement that the technique cannot apply"})
        continue
    if getattr(m, "UNCLAIMED", None):
        na.append({"property_id": pid, "reason": m.UNCLAIMED})
        continue
    checks.append({
        "property_id": pid,
        "quick_cmd": f"./check {pid} --tier quick",
        "thorough_cmd": f"./check {pid} --tier thorough",
        "evidence_file": f"/verif/evidence/{pid}.json",
        "replay_cmd_template": f"./check {pid} --replay {{path}}",
        "engine": m.ENGINE,
        "level_claimed": {"category": m.LEVEL, "text": m.LEVEL_TEXT, "design_ref": f"DESIGN.md section 4, {pid}"},
        "level_note": "; ".join(m.ASSUMPTIONS),
        "technique": m.TECHNIQUE,
    })
    engines.setdefault(m.ENGINE, []).append(pid)

manifest = {
    "version": 1,
    "setup_cmd": "cd /verif && ./setup.sh",
    "hooks": {
        "guard": "BELLOWS_VERIF",
        "enable": "no source hooks exist: every seam is a module attribute, an instance attribute, an event-loop policy or sys.settrace installed by the harness from outside /repo; checks import bellows straight from /repo's working tree (PYTHONPATH=/repo)",
        "baseline_off_cmd": BASELINE,
        "source_commits": [],
        "add_only": True,
    },
    "engines": [{"name": k, "path": "/verif/dst", "serves_properties": v, "kind_free_text": "deterministic simulation (virtual-time asyncio loop, tape-driven faults and schedules)"} for k, v in engines.items()],
    "checks": checks,
    "not_applicable": na,
    "notes": "Exit codes of every check: 0 held, 1 violation (VIOLATION line + replay file), 2 harness error. known_findings.json lists open/fixed findings (open ones are printed as KNOWN-FINDING lines; fixed ones are replayed as regression cases). VERIF_SEED, VERIF_TIER, VERIF_BUDGET_S, VERIF_JOBS are honoured. Self-tests: ./check selftest-determinism (same seeds, fresh interpreters, two PYTHONHASHSEEDs, two worker counts), ./check selftest-reference (reference ASH endpoint against itself under faults). Sensitivity: tools/mutants.py <ID> (hand mutants), tools/seeded.py run <name> <ID> (234 independent seeded changes under /verif/seeded, tools/seeded_all.sh runs them all), tools/revert_fixes.py (each fix: commit reverted in a scratch copy must be detected again), tools/automut.py <file-key> (AST mutation sweep). The commits in /repo on top of the pinned snapshot are fix: repairs of genuine defects only; no hooks.",
}
with open(os.path.join(VERIF, "MANIFEST.json"), "w") as f:
    json.dump(manifest, f, indent=1)
print("checks:", [c["property_id"] for c in checks], "not claimed:", [n["property_id"] for n in na])
