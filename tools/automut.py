#!/venv/bin/python
"""Systematic sensitivity sweep: AST-level mutants of bellows, filtered by the repository's own tests,
then run against the quick tier of the relevant checks.  Survivors are blind spots (or equivalent mutants).

usage: tools/automut.py <file-key> [--limit N] [--par P] [--out report.json] [--seed S]
file keys: ash uart ezsp protocol multicast thread application util v4 v5 v8 v9 v13 v14

Scratch copies live under a mkdtemp outside /repo and /verif and are removed as soon as a mutant is judged.
"""
import ast
import concurrent.futures as cf
import json
import os
import random
import shutil
import subprocess
import sys
import tempfile

VERIF = os.path.dirname(os.path.dirname(os.path.abspath(__file__)))
FILES = {
    "ash": ("bellows/ash.py", ["C01", "C02", "C03", "C04", "C05", "C11"], ["tests/test_ash.py"]),
    "uart": ("bellows/uart.py", ["C09", "C10", "C11"], ["tests/test_uart.py"]),
    "ezsp": ("bellows/ezsp/__init__.py", ["C08", "C09", "C10", "C16", "C17", "C14"], ["tests/test_ezsp.py"]),
    "protocol": ("bellows/ezsp/protocol.py", ["C06", "C08", "C10"], ["tests/test_ezsp_protocol.py", "tests/test_ezsp.py"]),
    "multicast": ("bellows/multicast.py", ["C15"], ["tests/test_multicast.py"]),
    "thread": ("bellows/thread.py", ["C20", "C10"], ["tests/test_thread.py"]),
    "application": ("bellows/zigbee/application.py", ["C12", "C13", "C14", "C19", "C17"], []),
    "util": ("bellows/zigbee/util.py", ["C14"], ["tests/test_util.py"]),
    "v4": ("bellows/ezsp/v4/__init__.py", ["C09", "C12", "C14", "C06"], ["tests/test_ezsp_v4.py"]),
    "v5": ("bellows/ezsp/v5/__init__.py", ["C09", "C14"], ["tests/test_ezsp_v5.py"]),
    "v8": ("bellows/ezsp/v8/__init__.py", ["C09", "C08", "C06"], ["tests/test_ezsp_v8.py"]),
    "v9": ("bellows/ezsp/v9/__init__.py", ["C14", "C12"], ["tests/test_ezsp_v9.py"]),
    "v13": ("bellows/ezsp/v13/__init__.py", ["C14"], ["tests/test_ezsp_v13.py"]),
    "v14": ("bellows/ezsp/v14/__init__.py", ["C14", "C12"], ["tests/test_ezsp_v14.py"]),
}
KNOWN_FAIL = ("test_connect[hardware]", "test_connect[software]", "test_connect_threaded", "test_connection_lost_reset_error_propagation")
CMP = {ast.Eq: ast.NotEq, ast.NotEq: ast.Eq, ast.Lt: ast.LtE, ast.LtE: ast.Lt, ast.Gt: ast.GtE, ast.GtE: ast.Gt, ast.Is: ast.IsNot, ast.IsNot: ast.Is,
       ast.In: ast.NotIn, ast.NotIn: ast.In}
BIN = {ast.Add: ast.Sub, ast.Sub: ast.Add, ast.Mult: ast.FloorDiv, ast.BitAnd: ast.BitOr, ast.BitOr: ast.BitAnd, ast.LShift: ast.RShift, ast.RShift: ast.LShift}


def sites(tree):
    """Yield (description, mutate(node copy root) -> None) closures over node positions (by walk index)."""
    out = []
    nodes = list(ast.walk(tree))
    for idx, n in enumerate(nodes):
        ln = getattr(n, "lineno", 0)
        if isinstance(n, ast.Compare) and len(n.ops) == 1 and type(n.ops[0]) in CMP:
            out.append((idx, ln, f"cmp {type(n.ops[0]).__name__}->{CMP[type(n.ops[0])].__name__}", "cmp"))
        elif isinstance(n, ast.BoolOp):
            out.append((idx, ln, f"boolop {type(n.op).__name__} swapped", "boolop"))
        elif isinstance(n, ast.UnaryOp) and isinstance(n.op, ast.Not):
            out.append((idx, ln, "not removed", "not"))
        elif isinstance(n, ast.BinOp) and type(n.op) in BIN:
            out.append((idx, ln, f"binop {type(n.op).__name__}->{BIN[type(n.op)].__name__}", "binop"))
        elif isinstance(n, ast.Constant) and isinstance(n.value, bool):
            out.append((idx, ln, f"const {n.value}->{not n.value}", "bool"))
        elif isinstance(n, ast.Constant) and isinstance(n.value, int) and not isinstance(n.value, bool) and -1 <= n.value <= 300:
            out.append((idx, ln, f"const {n.value}->{n.value + 1}", "int+"))
            if n.value > 0:
                out.append((idx, ln, f"const {n.value}->{n.value - 1}", "int-"))
        elif isinstance(n, ast.Expr) and isinstance(n.value, (ast.Call, ast.Await)):
            out.append((idx, ln, "statement deleted: " + ast.unparse(n)[:60], "del"))
        elif isinstance(n, ast.Continue):
            out.append((idx, ln, "continue->break", "cont"))
        elif isinstance(n, ast.Return) and n.value is not None and not (isinstance(n.value, ast.Constant) and n.value.value is None):
            out.append((idx, ln, "return value dropped: " + ast.unparse(n)[:50], "ret"))
        elif isinstance(n, ast.If) and not n.orelse and len(n.body) == 1 and isinstance(n.body[0], (ast.Raise, ast.Return, ast.Continue)):
            out.append((idx, ln, "guard removed: " + ast.unparse(n.test)[:50], "guard"))
        elif isinstance(n, ast.Assign) and len(n.targets) == 1 and isinstance(n.targets[0], ast.Attribute):
            out.append((idx, ln, "assignment deleted: " + ast.unparse(n)[:60], "delassign"))
    return out


def apply(src, idx, kind):
    tree = ast.parse(src)
    nodes = list(ast.walk(tree))
    n = nodes[idx]
    if kind == "cmp":
        n.ops[0] = CMP[type(n.ops[0])]()
    elif kind == "boolop":
        n.op = ast.Or() if isinstance(n.op, ast.And) else ast.And()
    elif kind == "not":
        _replace(tree, n, n.operand)
    elif kind == "binop":
        n.op = BIN[type(n.op)]()
    elif kind == "bool":
        n.value = not n.value
    elif kind == "int+":
        n.value = n.value + 1
    elif kind == "int-":
        n.value = n.value - 1
    elif kind in ("del", "delassign"):
        _replace(tree, n, ast.Pass())
    elif kind == "cont":
        _replace(tree, n, ast.Break())
    elif kind == "ret":
        n.value = None
    elif kind == "guard":
        _replace(tree, n, ast.Pass())
    ast.fix_missing_locations(tree)
    return ast.unparse(tree)


def _replace(tree, old, new):
    for parent in ast.walk(tree):
        for field, val in ast.iter_fields(parent):
            if val is old:
                setattr(parent, field, new)
                return
            if isinstance(val, list):
                for i, x in enumerate(val):
                    if x is old:
                        val[i] = new
                        return


def judge(job):
    try:
        return _judge(job)
    except subprocess.TimeoutExpired as e:
        return dict(job=job[:5], verdict="timeout", info=str(e)[:120])
    except Exception as e:  # noqa: BLE001
        return dict(job=job[:5], verdict="tool-error", info=repr(e)[:160])


def _judge(job):
    key, idx, ln, desc, kind, jobs = job
    path, checks, tests = FILES[key]
    src = open(os.path.join("/repo", path)).read()
    try:
        mutated = apply(src, idx, kind)
        compile(mutated, path, "exec")
    except Exception as e:
        return dict(job=job[:5], verdict="invalid", info=repr(e)[:100])
    if mutated == ast.unparse(ast.parse(src)):
        return dict(job=job[:5], verdict="invalid", info="no change")
    d = tempfile.mkdtemp(prefix="bellows-automut-")
    try:
        shutil.copytree("/repo/bellows", os.path.join(d, "bellows"))
        shutil.copytree("/repo/tests", os.path.join(d, "tests"))
        for f in ("pyproject.toml", "setup.py", "tox.ini"):
            if os.path.exists(os.path.join("/repo", f)):
                shutil.copy(os.path.join("/repo", f), d)
        open(os.path.join(d, path), "w").write(mutated)
        env = dict(os.environ, PYTHONPATH=d, PYTHONDONTWRITEBYTECODE="1")
        if tests:
            p = subprocess.run(["/venv/bin/python", "-m", "pytest", "-q", "-x", "-p", "no:cacheprovider", "--timeout=120", "-rf"] + tests, cwd=d, env=env, capture_output=True, text=True, timeout=900)
            failed = [l for l in p.stdout.splitlines() if l.startswith(("FAILED", "ERROR")) and not any(k in l for k in KNOWN_FAIL)]
            if failed or (p.returncode not in (0, 1)):
                return dict(job=job[:5], verdict="killed-by-tests", info=(failed or [p.stdout[-200:]])[0][:160])
        env = dict(os.environ, VERIF_REPO=d, VERIF_JOBS=str(jobs), VERIF_REPLAY_DIR=os.path.join(d, "replays"))
        for c in checks:
            p = subprocess.run([os.path.join(VERIF, "check"), c, "--no-evidence", "--tier", "quick"], cwd=VERIF, env=env, capture_output=True, text=True, timeout=900)
            for l in p.stdout.splitlines():
                if l.startswith("VIOLATION") and "replay=" in l:
                    rp = l.split("replay=")[1].strip()
                    if os.path.exists(rp) and os.path.basename(rp) not in open(os.path.join(VERIF, "known_findings.json")).read():
                        os.remove(rp)
            if p.returncode == 1:
                cl = [l for l in p.stdout.splitlines() if l.startswith("clause=")]
                return dict(job=job[:5], verdict="caught", by=c, info=(cl[0] if cl else "")[:200])
            if p.returncode == 2:
                return dict(job=job[:5], verdict="harness-error", by=c, info=p.stdout[-300:])
        return dict(job=job[:5], verdict="SURVIVED", info="")
    finally:
        shutil.rmtree(d, ignore_errors=True)


def main():
    a = sys.argv[1:]
    key = a[0]
    limit = int(a[a.index("--limit") + 1]) if "--limit" in a else 10**9
    par = int(a[a.index("--par") + 1]) if "--par" in a else 4
    out = a[a.index("--out") + 1] if "--out" in a else os.path.join(VERIF, ".cache", f"automut-{key}.json")
    seed = int(a[a.index("--seed") + 1]) if "--seed" in a else 0
    src = open(os.path.join("/repo", FILES[key][0])).read()
    ss = sites(ast.parse(src))
    random.Random(seed).shuffle(ss)
    ss = ss[:limit]
    jobs = [(key, idx, ln, desc, kind, max(2, 16 // par)) for (idx, ln, desc, kind) in ss]
    results = []
    os.makedirs(os.path.dirname(out), exist_ok=True)
    with cf.ThreadPoolExecutor(max_workers=par) as ex:
        for r in ex.map(judge, jobs):
            results.append(r)
            print(f"{r['verdict']:16s} L{r['job'][2]:<4d} {r['job'][3][:70]:70s} {r.get('by', '')} {r['info'][:100]}", flush=True)
            json.dump(results, open(out, "w"), indent=1)
    import collections

    c = collections.Counter(r["verdict"] for r in results)
    print(dict(c))
    return 0


if __name__ == "__main__":
    sys.exit(main())
