"""Engine E2 'ashpeer': real AshProtocol against a scripted peer.

sync mode   : byte streams / frame sequences fed chunk by chunk, compared with
              refash.HostReceiverModel (C02, C03.rx, C04)
script mode : per-attempt reactions to the host's DATA frames in virtual time (C05, C03.flip)
"""
from __future__ import annotations

import asyncio

import bellows.ash as ash

from . import refash as R
from .ashmon import WireMonitor
from .line import Pipe, SimTransport
from .loop import SimLoop, TimeShim, run_sim

COMPONENTS = {
    "real": ["bellows.ash.AshProtocol (all of bellows/ash.py)"],
    "simulated": ["event loop + clock (dst.loop.SimLoop)", "serial transport (dst.line.SimTransport)",
                  "scripted ASH peer emitting frames from the independent encoder (dst.refash)",
                  "reference host receiver (dst.refash.HostReceiverModel) as oracle", "upper layer (recorder)"],
}


class _Up:
    __slots__ = ("ev",)

    def __init__(self, ev):
        self.ev = ev

    def connection_made(self, t):
        pass

    def data_received(self, d):
        self.ev.append(("up", bytes(d)))

    def reset_received(self, c):
        self.ev.append(("reset", int(c)))


class _Tr:
    __slots__ = ("ev", "bad")

    def __init__(self, ev):
        self.ev = ev
        self.bad = []

    def write(self, data):
        data = bytes(data)
        try:
            _n, fr, _raw = R.decode_one_write(data)
        except ValueError as e:
            self.bad.append((data, str(e)))
            self.ev.append(("garbage", data))
            return
        if fr[0] in ("ack", "nak"):
            self.ev.append((fr[0], fr[1]))
        else:
            self.ev.append((fr[0],))

    def is_closing(self):
        return False

    def close(self):
        pass


class SyncHost:
    """The real protocol, driven synchronously (no timers are involved in receiving)."""

    def __init__(self, rx: int = 0):
        self.ev = []
        self.proto = ash.AshProtocol(_Up(self.ev))
        self.tr = _Tr(self.ev)
        self.proto.connection_made(self.tr)
        # reach expected-number state rx by a prefix of in-sequence frames
        for i in range(rx):
            self.proto.data_received(R.wire(R.f_data(i, 0, 0, b"\x00\x00\x00")))
        self.ev.clear()
        self.raised = None

    def feed(self, chunk: bytes):
        try:
            self.proto.data_received(chunk)
        except Exception as e:  # C02.noraise
            self.raised = e
            return False
        return True


def split_streams(ev):
    up = [e for e in ev if e[0] in ("up", "reset")]
    wr = [e for e in ev if e[0] not in ("up", "reset")]
    return up, wr


def diff_stream(data: bytes, cuts, rx: int = 0, per_chunk: bool = False):
    """Feed `data` cut at `cuts` to the real protocol and unchunked to the model.

    Returns None when equivalent, else (clause, text)."""
    host = SyncHost(rx)
    model = R.HostReceiverModel(rx)
    prev = 0
    pieces = []
    for c in list(cuts) + [len(data)]:
        if c > prev:
            pieces.append(data[prev:c])
            prev = c
    for p in pieces:
        if not host.feed(p):
            return ("C02.noraise", f"data_received raised {host.raised!r} on chunk {p.hex()} of stream {data.hex()}"), model, host
        if per_chunk:
            model.feed(p)
            up_r, wr_r = split_streams(host.ev)
            if up_r != model.up or wr_r != model.wr:
                return ("C04.answer", f"after chunk {p.hex()}: real up={up_r[-3:]} wr={wr_r[-3:]}, model up={model.up[-3:]} wr={model.wr[-3:]}"), model, host
    if not per_chunk:
        model.feed(data)
    up_r, wr_r = split_streams(host.ev)
    if host.tr.bad:
        return ("C03.tx", f"host wrote malformed bytes {host.tr.bad[0][0].hex()}: {host.tr.bad[0][1]}"), model, host
    if up_r != model.up:
        extra = [e for e in up_r if e not in model.up]
        clause = "C02.nodeliver" if len(up_r) > len(model.up) or extra else "C02.equiv"
        return (clause, f"upward calls differ for stream {data.hex()} cuts={list(cuts)}: real {up_r[:6]} model {model.up[:6]}"), model, host
    if wr_r != model.wr:
        return ("C02.equiv", f"ACK/NAK written back differ for stream {data.hex()} cuts={list(cuts)}: real {wr_r[:8]} model {model.wr[:8]}"), model, host
    return None, model, host


# ---------------------------------------------------------------- script mode
class ScriptHostUpper:
    def __init__(self, loop, mon, log):
        self.loop, self.mon, self.log = loop, mon, log
        self.rx = []
        self.notes = []  # (time, code, what)

    def connection_made(self, t):
        pass

    def connection_lost(self, exc):
        pass

    def data_received(self, d):
        self.rx.append((self.loop.time(), bytes(d)))
        self.log.append((self.loop.time(), "host_rx", bytes(d).hex()))

    def reset_received(self, code):
        what = self.mon.on_reset_received(code)
        self.notes.append((self.loop.time(), int(code), what))
        self.log.append((self.loop.time(), "host_reset", int(code), what))


class ScriptRig:
    """Real AshProtocol on a SimLoop; the test drives the peer side frame by frame."""

    def __init__(self, tape, sched=True, max_iters=50_000):
        self.loop = SimLoop(tape if sched else None, max_iters=max_iters)
        ash.time = TimeShim(self.loop)
        self.tape = tape
        self.log = []
        self.payloads = set()
        self.mon = WireMonitor(self.loop, payload_ok=lambda p: p in self.payloads)
        self.upper = ScriptHostUpper(self.loop, self.mon, self.log)
        self.proto = ash.AshProtocol(self.upper)
        self.on_data = None  # callback(frame tuple) when the host writes a DATA frame
        self.on_frame = None  # callback(frame tuple) for every host frame
        self.transport = SimTransport(self.loop, self._host_write, log=self.log)
        self.transport.on_mutated = lambda snap, now, _m=self.mon: _m._v("C03.tx", "buffer-mutated-after-write", f"the object handed to transport.write() ({snap.hex()}) was changed afterwards (now {now.hex()}): a transport that has not drained yet would put the new content on the wire")
        self.n2h = Pipe(self.loop, "n2h", sink=self._to_host)
        self.transport.attach(self.proto)

    def _host_write(self, data):
        fr = self.mon.on_host_write(data)
        self.log.append((self.loop.time(), "host_tx", data.hex()))
        if fr is not None:
            if self.on_frame is not None:
                self.on_frame(fr)
            if fr[0] == "data" and self.on_data is not None:
                self.on_data(fr)

    def _to_host(self, chunk):
        self.mon.on_host_read(chunk)
        self.log.append((self.loop.time(), "to_host", chunk.hex()))
        self.transport.feed(chunk)

    def peer_send(self, frame_wo_crc: bytes, delay: float = 0.0, at: float | None = None, flips=()):
        data = R.wire(frame_wo_crc, flips)
        if at is not None:
            delay = max(0.0, at - self.loop.time())
        self.n2h.put(data, delay)

    def peer_send_at(self, frame_wo_crc: bytes, at: float):
        """Emit the frame at virtual time `at` (a timer, so emissions need not be enqueued in time order)."""
        data = R.wire(frame_wo_crc)
        self.loop.external(at, self.n2h.put, data, 0.0, group="peer-emit")

    def peer_send_bytes(self, data: bytes, delay: float = 0.0):
        self.n2h.put(data, delay)

    def ack_deadline(self):
        """`when` of the host's pending ACK-timeout timer (the only group-less timer
        within the protocol's timeout window)."""
        now = self.loop.time()
        c = [e[0] for e in self.loop._heap if not e[2]._cancelled
             and type(getattr(e[2]._callback, "__self__", None)).__name__ == "Timeout"
             and now <= e[0] <= now + 3.2 + 1e-9]
        return min(c) if c else None

    def run(self, main):
        return run_sim(self.loop, main)
