"""EZSP frame headers as an NCP of a given protocol version sees them.

Written from UG100 (EZSP reference), independent of bellows:

  version 4      : seq | frame control | frame id (1)                        ('legacy')
  version 5..7   : seq | frame control | 0xFF | extended frame control | frame id (1)
  version 8+     : seq | frame control lo | frame control hi | frame id lo | frame id hi
                   (frame control hi, bits 1:0 = frame format version = 1)

After every reset an NCP of any version accepts the `version` command in the
legacy layout (seq, fc, 0x00, desiredProtocolVersion) and answers it in the legacy
layout; every other request must be in the NCP's own layout.
"""
from __future__ import annotations

FC_RESPONSE = 0x80
FC_ASYNC_CB = 0x90  # response bit + callback type 'asynchronous'
ID_VERSION = 0x00
ID_INVALID_COMMAND = 0x58


def layout_of(version: int) -> str:
    if version <= 4:
        return "legacy"
    if version <= 7:
        return "ext"
    return "v8"


def parse_own(version: int, p: bytes):
    """Request bytes -> (seq, frame_id, body) in the NCP's own layout, or None."""
    lay = layout_of(version)
    if lay == "legacy":
        if len(p) < 3:
            return None
        return p[0], p[2], bytes(p[3:])
    if lay == "ext":
        if len(p) < 5 or p[2] != 0xFF:
            return None
        return p[0], p[4], bytes(p[5:])
    if len(p) < 5 or (p[2] & 0x03) != 0x01:
        return None
    return p[0], p[3] | (p[4] << 8), bytes(p[5:])


def parse_legacy_version(p: bytes):
    """(seq, desiredProtocolVersion) if p is a version query in the legacy layout."""
    if len(p) == 4 and p[2] == ID_VERSION and (p[1] & 0x80) == 0:
        return p[0], p[3]
    return None


def header(version_or_layout, seq: int, frame_id: int, fc: int = FC_RESPONSE) -> bytes:
    lay = version_or_layout if isinstance(version_or_layout, str) else layout_of(version_or_layout)
    if lay == "legacy":
        return bytes([seq & 0xFF, fc, frame_id & 0xFF])
    if lay == "ext":
        return bytes([seq & 0xFF, fc, 0xFF, 0x00, frame_id & 0xFF])
    return bytes([seq & 0xFF, fc, 0x01, frame_id & 0xFF, (frame_id >> 8) & 0xFF])


def classify_host_request(p: bytes):
    """Best-effort description of a request in any layout (for messages only)."""
    if len(p) >= 5 and p[2] == 0xFF:
        return "ext", p[0], p[4]
    if len(p) >= 5 and (p[2] & 0x03) == 0x01:
        return "v8", p[0], p[3] | (p[4] << 8)
    if len(p) >= 3:
        return "legacy", p[0], p[2]
    return "short", (p[0] if p else None), None
