"""Determinism self-test: the same seeds must give the same per-run digests in a fresh interpreter,
under another PYTHONHASHSEED and with another worker count.

usage: ./check selftest-determinism [--runs N] (VERIF_PROPS=C01,C06 restricts the properties)

Every property is run three times in fresh interpreters:
    A: PYTHONHASHSEED=0,   default worker count
    B: PYTHONHASHSEED=0,   3 workers
    C: PYTHONHASHSEED=777, default worker count
and the digest maps (one SHA-256 per run over the full event log, outcomes and virtual time) are compared.
A mismatch is a harness error (exit 2), never a VIOLATION.
"""
from __future__ import annotations

import json
import os
import subprocess
import sys
import tempfile

VERIF = os.path.dirname(os.path.dirname(os.path.abspath(__file__)))
ALL = ["C01", "C02", "C03", "C04", "C05", "C06", "C08", "C09", "C10", "C11", "C12", "C13", "C14", "C15", "C16", "C17", "C19", "C20"]
RUNS = {"C01": 300, "C02": 40, "C03": 200, "C04": 100, "C05": 200, "C06": 120, "C08": 60, "C09": 200, "C10": 150, "C11": 150, "C12": 60, "C13": 40, "C14": 24,
        "C15": 60, "C16": 60, "C17": 60, "C19": 12, "C20": 200}


def one(pid, runs, hashseed, jobs, out):
    env = dict(os.environ, VERIF_HASHSEED=str(hashseed))
    cmd = [os.path.join(VERIF, "check"), pid, "--no-evidence", "--no-sweeps", "--runs", str(runs), "--digests", out]
    if jobs:
        cmd += ["--jobs", str(jobs)]
    p = subprocess.run(cmd, cwd=VERIF, env=env, capture_output=True, text=True, timeout=1800)
    return p.returncode, p.stdout[-600:] + p.stderr[-300:]


def main(args):
    props = [p.strip().upper() for p in os.environ.get("VERIF_PROPS", "").split(",") if p.strip()] or ALL
    scale = (args.runs / 100.0) if args.runs else 1.0
    bad = 0
    total = 0
    with tempfile.TemporaryDirectory(dir=os.path.join(VERIF, ".cache") if os.path.isdir(os.path.join(VERIF, ".cache")) else None) as d:
        for pid in props:
            n = max(4, int(RUNS.get(pid, 50) * scale))
            files = []
            rcs = []
            for tag, hs, jobs in (("A", 0, 0), ("B", 0, 3), ("C", 777, 0)):
                f = os.path.join(d, f"{pid}-{tag}.json")
                rc, out = one(pid, n, hs, jobs, f)
                rcs.append(rc)
                if rc not in (0, 1) or not os.path.exists(f):
                    print(f"{pid} {tag}: check exited {rc}\n{out}")
                    bad += 1
                    files.append(None)
                    continue
                files.append(json.load(open(f)))
            if any(x is None for x in files):
                continue
            a, b, c = files
            keys = set(a) | set(b) | set(c)
            diff = [k for k in keys if not (a.get(k) == b.get(k) == c.get(k)) or a.get(k) is None]
            total += len(keys)
            if diff or len(set(rcs)) != 1:
                bad += 1
                print(f"{pid}: NONDETERMINISTIC {len(diff)}/{len(keys)} runs differ (exit codes {rcs}); first: {sorted(diff)[:2]}")
            else:
                print(f"{pid}: {len(keys)} runs identical across fresh interpreters, PYTHONHASHSEED 0/777 and worker counts (exit {rcs[0]})")
    if bad:
        print(f"HARNESS-ERROR: determinism self-test failed for {bad} propert{'y' if bad == 1 else 'ies'}")
        return 2
    print(f"determinism self-test passed: {total} runs x 3 configurations")
    return 0
