"""Determinism self-test: the same seeds must give the same per-run digests in a fresh interpreter,
under another PYTHONHASHSEED and with another worker count.

usage: ./check selftest-determinism [--runs N] (VERIF_PROPS=C01,C06 restricts the properties)

Every property is run three times in fresh interpreters:
    A: PYTHONHASHSEED=0,   default worker count
    B: PYTHONHASHSEED=1,   3 workers (0 and 777 happen to order two voluptuous default markers alike; 1 does not)
    C: PYTHONHASHSEED=777, default worker count
and the digest maps (one SHA-256 per run over the full event log, outcomes and virtual time) are compared.
A mismatch is a harness error (exit 2), never a VIOLATION.
"""
from __future__ import annotations

import json
import os
import subprocess
import sys
import tempfile

VERIF = os.path.dirname(os.path.dirname(os.path.abspath(__file__)))
ALL = ["C01", "C02", "C03", "C04", "C05", "C06", "C08", "C09", "C10", "C11", "C12", "C13", "C14", "C15", "C16", "C17", "C19", "C20"]
RUNS = {"C01": 300, "C02": 40, "C03": 200, "C04": 100, "C05": 200, "C06": 120, "C08": 60, "C09": 200, "C10": 150, "C11": 150, "C12": 60, "C13": 40, "C14": 24,
        "C15": 60, "C16": 60, "C17": 60, "C19": 12, "C20": 200}


def one(pid, runs, hashseed, jobs, out):
    env = dict(os.environ, VERIF_HASHSEED=str(hashseed))
    cmd = [os.path.join(VERIF, "check"), pid, "--no-evidence", "--no-sweeps", "--runs", str(runs), "--digests", out]
    if jobs:
        cmd += ["--jobs", str(jobs)]
    p = subprocess.run(cmd, cwd=VERIF, env=env, capture_output=True, text=True, timeout=1800)
    return p.returncode, p.stdout[-600:] + p.stderr[-300:]


def main(args):
    props = [p.strip().upper() for p in os.environ.get("VERIF_PROPS", "").split(",") if p.strip()] or ALL
    scale = (args.runs / 100.0) if args.runs else 1.0
    bad = 0
    total = 0
    with tempfile.TemporaryDirectory(dir=os.path.join(VERIF, ".cache") if os.path.isdir(os.path.join(VERIF, ".cache")) else None) as d:
        for pid in props:
            n = max(4, int(RUNS.get(pid, 50) * scale))
            files = []
            rcs = []
            for tag, hs, jobs in (("A", 0, 0), ("B", 1, 3), ("C", 777, 0)):
                f = os.path.join(d, f"{pid}-{tag}.json")
                rc, out = one(pid, n, hs, jobs, f)
                rcs.append(rc)
                if rc not in (0, 1) or not os.path.exists(f):
                    print(f"{pid} {tag}: check exited {rc}\n{out}")
                    bad += 1
                    files.append(None)
                    continue
                files.append(json.load(open(f)))
            if any(x is None for x in files):
                continue
            a, b, c = files
            keys = set(a) | set(b) | set(c)
            diff = [k for k in keys if not (a.get(k) == b.get(k) == c.get(k)) or a.get(k) is None]
            total += len(keys)
            if diff or len(set(rcs)) != 1:
                bad += 1
                print(f"{pid}: NONDETERMINISTIC {len(diff)}/{len(keys)} runs differ (exit codes {rcs}); first: {sorted(diff)[:2]}")
            else:
                print(f"{pid}: {len(keys)} runs identical across fresh interpreters, PYTHONHASHSEED 0/1/777 and worker counts (exit {rcs[0]})")
    if bad:
        print(f"HARNESS-ERROR: determinism self-test failed for {bad} propert{'y' if bad == 1 else 'ies'}")
        return 2
    print(f"determinism self-test passed: {total} runs x 3 configurations")
    return 0


# ------------------------------------------------------------------ reference vs reference
def reference_vs_reference(nruns=400, seed0=0):
    """Trusted-base cross-check: two reference ASH endpoints (dst.refash.NcpEndpoint) talk over the faulty line;
    the C01 delivery oracle must hold between them.  A failure here is a bug in the reference, not in bellows."""
    import asyncio

    from . import refash as R
    from .line import FaultPlan, Line
    from .loop import SimLoop, run_sim
    from .tape import Tape, mix_seed

    bad = []
    fired_total = {}
    for i in range(nruns):
        tape = Tape(seed=mix_seed(seed0, "refref", i))
        loop = SimLoop(tape, max_iters=100_000)
        plan = FaultPlan.swarm(tape)
        line = Line(loop, tape, plan, nodup_kinds=("rst", "rstack"))
        ends = {}

        def mk(name, direction):
            def emit(frame_wo_crc, kind):
                raw = R.with_crc(frame_wo_crc)
                line.send(direction, b"", raw, R.wire_raw(raw), kind)
            return R.NcpEndpoint(loop, tape, emit, K=1 + tape.draw(3, "K"))

        a, b = mk("a", "h2n"), mk("b", "n2h")
        line.h2n.sink = b.feed
        line.n2h.sink = a.feed
        na, nb = 1 + tape.draw(30, "na"), tape.draw(30, "nb")
        pa = [b"A" + j.to_bytes(2, "big") + bytes([0x7E, 0x11, j & 0xFF]) for j in range(na)]
        pb = [b"B" + j.to_bytes(2, "big") + bytes([0x1A, 0x7D, j & 0xFF]) for j in range(nb)]

        async def main():
            t = 0.0
            for j, p in enumerate(pa):
                t += (0.0, 0.001, 0.3, 2.0)[tape.draw(4, "gap")]
                loop.external(t, a.submit, p, j)
            t2 = 0.0
            for j, p in enumerate(pb):
                t2 += (0.0, 0.001, 0.3, 2.0)[tape.draw(4, "gap")]
                loop.external(t2, b.submit, p, j)
            await asyncio.sleep(max(t, t2) + 20.0)
            plan.stop()
            await asyncio.sleep(120.0)

        outcome, val = run_sim(loop, main())
        for k, v in plan.fired.items():
            fired_total[k] = fired_total.get(k, 0) + v
        for (src, dst, sent, tag) in ((a, b, pa, "a->b"), (b, a, pb, "b->a")):
            got = [sent.index(p) if p in sent else -1 for p in dst.delivered]
            pos = [src.submitted.index(g) for g in got if g in src.submitted]  # same-instant submissions may be reordered by the scheduler
            if -1 in got or len(set(got)) != len(got) or pos != sorted(pos):
                bad.append((i, tag, "delivery", got[:20], src.submitted[:20]))
            for pid in src.acked:
                if dst.delivered.count(sent[pid]) != 1:
                    bad.append((i, tag, "acked-but-not-once", pid))
            if src.failed is None and dst.failed is None and outcome == "done" and len(src.acked) != len(sent):
                bad.append((i, tag, "not-all-acked-after-faults-stopped", (len(src.acked), len(sent))))
        if outcome != "done":
            bad.append((i, "-", "sim-" + outcome, repr(val)))
    return bad, fired_total


def main_reference(args):
    n = args.runs or 400
    bad, fired = reference_vs_reference(n, args.seed)
    print(f"reference-vs-reference: {n} runs, faults fired {({k: v for k, v in sorted(fired.items()) if not k.endswith('.deliver')})}")
    if bad:
        print(f"HARNESS-ERROR: the reference ASH endpoint violates the delivery oracle against itself in {len(bad)} case(s); first: {bad[:3]}")
        return 2
    print("reference ASH endpoint: exactly-once in-order delivery holds against itself under all injected faults")
    return 0
