"""E3 on E4: the EZSP stack split over two event loops in two real threads, as `uart.connect(use_thread=True)` does.

EZSP (and the caller) run on loop M in the main thread; Gateway + AshProtocol + the simulated transport, line and
reference NCP run on loop W in the thread created by bellows' EventLoopThread.  Both loops are ThreadedSimLoops under
the baton scheduler (dst.threads); the tape picks the running thread at every loop iteration and at line events inside
bellows/thread.py.
"""
from __future__ import annotations

import bellows.ezsp

from . import e3
from .threads import run_threaded

COMPONENTS = {
    "real": e3.COMPONENTS["real"] + ["bellows.thread.EventLoopThread + ThreadsafeProxy in both directions (uart.connect(use_thread=True))",
                                     "real OS threads, parked and released one at a time"],
    "simulated": e3.COMPONENTS["simulated"] + ["both event loops (dst.threads.ThreadedSimLoop, shared virtual clock), thread scheduling (dst.threads.Baton)"],
}


class ThreadedStackRig(e3.StackRig):
    def __init__(self, tape, **kw):
        kw.setdefault("fast_line", True)
        kw.setdefault("chunking", False)
        super().__init__(tape, defer=True, **kw)
        self.sched = None
        self.main_loop = None

    async def connect(self):
        ez = bellows.ezsp.EZSP(self.device_config())
        self.ezsp = ez
        await ez.connect(use_thread=True)
        return ez

    def run_threaded(self, main_factory, preempt_den=6):
        """main_factory(rig, sched, main_loop) -> coroutine, run on loop M. Returns (outcome, value)."""
        def factory(sched, loop):
            self.sched, self.main_loop = sched, loop
            return main_factory(self, sched, loop)

        outcome, val, sched = run_threaded(self.tape, factory, preempt_den=preempt_den)
        self.sched = sched
        return outcome, val
