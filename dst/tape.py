"""The choice tape: the single source of every decision in a simulated run.

Generation mode: backed by random.Random(seed), records what it returned.
Replay mode: returns the recorded values (value mod n), 0 past the end.
0 is always the benign choice (deliver, no fault, first option, no batching).
Logging never draws from the tape.
"""
from __future__ import annotations

import hashlib
import random


def mix_seed(*parts) -> int:
    """Derive a 63-bit run seed from (VERIF_SEED, property id, scenario, index...)."""
    h = hashlib.sha256(repr(parts).encode()).digest()
    return int.from_bytes(h[:8], "big") >> 1


class Tape:
    __slots__ = ("seed", "_rng", "_values", "pos", "rec", "labels", "_want_labels")

    def __init__(self, seed: int | None = None, values=None, want_labels: bool = False):
        self.seed = seed
        self._values = list(values) if values is not None else None
        self._rng = random.Random(seed) if values is None else None
        self.pos = 0
        self.rec: list[int] = []
        self._want_labels = want_labels
        self.labels: list[str] = []

    @property
    def replaying(self) -> bool:
        return self._values is not None

    def draw(self, n: int, label: str = "") -> int:
        """Return an int in [0, n). n <= 1 consumes nothing."""
        if n <= 1:
            return 0
        if self._values is None:
            v = self._rng.randrange(n)
        else:
            if self.pos < len(self._values):
                v = self._values[self.pos] % n
            else:
                v = 0
        self.pos += 1
        self.rec.append(v)
        if self._want_labels:
            self.labels.append(f"{label}/{n}")
        return v

    def chance(self, num: int, den: int, label: str = "") -> bool:
        """True with probability num/den; False (benign) for draw value 0."""
        if num <= 0:
            return False
        return self.draw(den, label) >= den - num

    def choice(self, seq, label: str = ""):
        return seq[self.draw(len(seq), label)]

    def weighted(self, options, label: str = ""):
        """options: [(weight, value), ...]; the first option is the benign one."""
        total = 0
        for w, _ in options:
            total += w
        v = self.draw(total, label)
        for w, val in options:
            if v < w:
                return val
            v -= w
        return options[-1][1]

    def sub(self, label: str = "") -> random.Random:
        """A local PRNG seeded by one draw: bulk content (payload bytes) costs one tape entry."""
        return random.Random(self.draw(1 << 16, label))

    def rand_bytes(self, n: int, label: str = "") -> bytes:
        return bytes(self.draw(256, label) for _ in range(n))


class NullTape(Tape):
    """A tape that always answers 0 and records nothing (benign everything)."""

    def __init__(self):
        super().__init__(values=[])

    def draw(self, n: int, label: str = "") -> int:
        return 0


class PolicyTape(Tape):
    """Answers only the event loop's scheduling questions, by a fixed policy instead of a seeded draw: used by directed sweeps that want
    'every pair of same-instant events in ONE loop iteration, in this order' without relying on a random tape finding it."""

    def __init__(self, batch: int = 1, join: int = 1, order: int = 0):
        super().__init__(values=[])
        self.batch, self.join, self.order = batch, join, order

    def draw(self, n: int, label: str = "") -> int:
        if n <= 1:
            return 0
        if label == "sched.batch":
            return min(self.batch, n - 1)
        if label == "sched.join":
            return min(self.join, n - 1)
        if label == "sched.order":
            return min(self.order, n - 1)
        return 0
