"""Engine E1 'ashlink': real AshProtocol <-> faulty FIFO line <-> reference NCP endpoint."""
from __future__ import annotations

import asyncio
import hashlib

import bellows.ash as ash

from . import refash as R
from .ashmon import WireMonitor
from .line import FaultPlan, Line, SimTransport
from .loop import SimLoop, TimeShim, run_sim

COMPONENTS = {
    "real": ["bellows.ash.AshProtocol (all of bellows/ash.py)"],
    "simulated": ["event loop + clock (dst.loop.SimLoop)", "serial transport and line (dst.line)",
                  "NCP ASH endpoint (dst.refash.NcpEndpoint, written from UG101)", "upper layers (recorders)"],
}

GAPS = (0.0, 0.0, 0.001, 0.01, 0.3, 2.0)
CANCEL_AT = (0.0, 0.001, 0.5, 1.6, 3.0)
RESERVED_RICH = (0x7E, 0x7D, 0x11, 0x13, 0x18, 0x1A)


class ScriptedPlan(FaultPlan):
    """Tape-prefix sweep: fault kinds for the first d frames (in emission order), then benign."""

    def __init__(self, tape, script):
        super().__init__(tape, True, {})
        self.script = list(script)
        self.i = 0

    def decide(self, direction):
        if not self.on or self.i >= len(self.script):
            return "deliver"
        k = self.script[self.i]
        self.i += 1
        return k


class DirectionalPlan(FaultPlan):
    """One direction is dead for its first n frames (a send that exhausts its retry budget), everything else benign."""

    def __init__(self, tape, direction, n):
        super().__init__(tape, True, {})
        self.direction, self.n = direction, n

    def decide(self, direction):
        if self.on and direction == self.direction and self.n > 0:
            self.n -= 1
            return "drop"
        return "deliver"


class HostUpper:
    def __init__(self, loop, mon, log):
        self.loop, self.mon, self.log = loop, mon, log
        self.rx = []
        self.resets = []
        self.failures = []

    def connection_made(self, transport):
        pass

    def connection_lost(self, exc):
        pass

    def eof_received(self):
        pass

    def data_received(self, d):
        self.rx.append(bytes(d))
        self.mon.on_host_deliver(d)
        self.log.append((self.loop.time(), "host_rx", bytes(d).hex()))

    def reset_received(self, code):
        what = self.mon.on_reset_received(code)
        self.resets.append(int(code))
        if what == "failure":
            self.failures.append(int(code))
        self.log.append((self.loop.time(), "host_reset", int(code), what))


def gen_payload(tape, tag: bytes, i: int) -> bytes:
    n = (1, 2, 3, 5, 8, 13, 20, 40, 80, 120, 125, 126, 160, 200)[tape.draw(14, "pl.len")]  # (+3 bytes of tag and index: up to 203, crossing 128)
    mode = tape.draw(3, "pl.mode")
    if mode == 0:
        body = bytes((i * 7 + j) & 0xFF for j in range(n))
    elif mode == 1:
        body = bytes(RESERVED_RICH[(i + j) % 6] for j in range(n))
    else:
        rng = tape.sub("pl.seed")
        body = bytes(rng.choice(RESERVED_RICH) if rng.random() < 0.5 else rng.randrange(256) for _ in range(n))
    return tag + i.to_bytes(2, "big") + body


def run(params, tape, detail=False):
    loop = SimLoop(tape if params.get("sched", True) else None, max_iters=params.get("max_iters", 60_000))
    ash.time = TimeShim(loop)
    log = []
    # ---- swarm configuration
    if "K" in params:
        K = params["K"]
    else:
        K = 1 + tape.draw(3, "K")
    if "script" in params:
        plan = ScriptedPlan(tape, params["script"])
    elif "drop_first" in params:
        plan = DirectionalPlan(tape, *params["drop_first"])
    elif params.get("faults", True):
        plan = FaultPlan.swarm(tape)
    else:
        plan = FaultPlan(tape, False)
    n_host = params["n_host"] if "n_host" in params else (1, 2, 3, 5, 9, 14, 20, 30, 40)[tape.draw(9, "n_host")]
    n_ncp = params["n_ncp"] if "n_ncp" in params else (0, 1, 2, 3, 5, 9, 14, 20, 30, 40)[tape.draw(10, "n_ncp")]
    cancel_den = params.get("cancel_den", 8)
    recover = params.get("recover", True)

    host_payloads = [gen_payload(tape, b"H", i) for i in range(n_host)]
    ncp_payloads = [gen_payload(tape, b"N", i) for i in range(n_ncp)]
    host_set = set(host_payloads)

    line = Line(loop, tape, plan, log=log, nodup_kinds=("rst", "rstack"))
    mon = WireMonitor(loop, payload_ok=lambda p: p in host_set)
    upper = HostUpper(loop, mon, log)
    proto = ash.AshProtocol(upper)

    def ncp_emit(frame_wo_crc, kind):
        raw = R.with_crc(frame_wo_crc)
        line.send("n2h", b"", raw, R.wire_raw(raw), kind)

    ncp = R.NcpEndpoint(loop, tape, ncp_emit, K=K, log=log)

    def host_write(data):
        fr = mon.on_host_write(data)
        log.append((loop.time(), "host_tx", data.hex()))
        if fr is None:
            line.send("h2n", b"", None, data, "garbage")
            return
        ncan = 0
        while data[ncan] == R.CAN:
            ncan += 1
        raw, _ok = R.unstuff(data[ncan:-1])
        line.send("h2n", data[:ncan], raw, data, fr[0])

    transport = SimTransport(loop, host_write, log=log)
    transport.on_mutated = lambda snap, now, _m=mon: _m._v("C03.tx", "buffer-mutated-after-write", f"the object handed to transport.write() ({snap.hex()}) was changed afterwards (now {now.hex()}): a transport that has not drained yet would put the new content on the wire")

    mon.rxdiff = True

    def to_host(chunk):
        mon.on_host_read(chunk)
        transport.feed(chunk)
        mon.rx_check()

    line.h2n.sink = ncp.feed
    line.n2h.sink = to_host
    transport.attach(proto)

    results = {}  # i -> (kind, info)
    sub_order = []
    at_return = {}
    tasks = {}

    async def caller(i):
        sub_order.append(i)
        log.append((loop.time(), "submit", i))
        try:
            await proto.send_data(host_payloads[i])
        except asyncio.CancelledError:
            results[i] = ("cancelled", None)
            log.append((loop.time(), "send_cancelled", i))
            raise
        except Exception as e:
            results[i] = ("exc", type(e).__name__)
            log.append((loop.time(), "send_raised", i, type(e).__name__))
        else:
            results[i] = ("ok", None)
            at_return[i] = ncp.delivered.count(host_payloads[i])
            log.append((loop.time(), "send_ok", i))

    def start(i):
        tasks[i] = loop.create_task(caller(i), name=f"caller-{i}")

    def cancel(i):
        t = tasks.get(i)
        if t is not None and not t.done():
            mon._probe("caller_cancelled_in_flight")
            t.cancel()

    recoveries = [0]

    async def main():
        t = params.get("host_start", 0.0)
        for i in range(n_host):
            t += GAPS[tape.draw(len(GAPS), "gap.h")]
            loop.external(t, start, i)
            if tape.chance(1, cancel_den, "cancel?"):
                loop.external(t + CANCEL_AT[tape.draw(len(CANCEL_AT), "cancel.at")], cancel, i)
        t2 = params.get("ncp_start", 0.0)
        for j in range(n_ncp):
            t2 += GAPS[tape.draw(len(GAPS), "gap.n")]
            loop.external(t2, ncp.submit, ncp_payloads[j], j)
        end = max(t, t2) + 5.0 + 8.0 * tape.draw(3, "extra")
        # while faults flow, a failed link may be reset by the upper layer (as Gateway/EZSP would)
        while loop.time() < end:
            await asyncio.sleep(1.0)
            # a single RST per run: a second RST while the first RSTACK is still in flight is the
            # reset-handshake race that belongs to C09/C11, not to the data path checked here
            if recover and mon.failed and recoveries[0] < 1 and tape.draw(2, "recover"):
                recoveries[0] += 1
                mon._probe("link_reset_after_failure")
                try:
                    proto.send_reset()
                except Exception:
                    pass
        plan.stop()
        log.append((loop.time(), "faults_stop"))
        await asyncio.sleep(120.0)

    outcome, val = run_sim(loop, main())
    for i, t in tasks.items():
        if i not in results and t.cancelled():
            results[i] = ("cancelled", "before-start")
    viol = list(mon.viol)
    if outcome != "done":
        viol.append(("C01.live", "sim-" + outcome, f"simulation ended with {outcome}: {val!r}"))

    # ------------------------------------------------------------------ oracle
    # payloads that were lost because of a reset of the link are simply not delivered (at most once)
    idx = {p: i for i, p in enumerate(host_payloads)}
    seen = [idx.get(p, -1) for p in ncp.delivered]
    if -1 in seen:
        viol.append(("C01.atmost", "h2n-alien", "NCP upper layer got a payload the host never submitted"))
    dup = sorted({i for i in seen if seen.count(i) > 1})
    if dup:
        viol.append(("C01.atmost", "h2n-duplicate", f"host payloads {dup} handed to the NCP upper layer more than once"))
    pos = [sub_order.index(i) for i in seen if i in sub_order]
    if any(b <= a for a, b in zip(pos, pos[1:])) and not dup:
        viol.append(("C01.order", "h2n-order", f"NCP received host payloads in order {seen}, submitted {sub_order}"))
    for i, (kind, _info) in results.items():
        if kind == "ok":
            if at_return.get(i) != 1:
                viol.append(("C01.once", "h2n-at-return", f"send_data of payload {i} returned with the payload delivered {at_return.get(i)} times"))
            elif ncp.delivered.count(host_payloads[i]) != 1:
                viol.append(("C01.once", "h2n-final", f"payload {i} (send completed) delivered {ncp.delivered.count(host_payloads[i])} times in the end"))
    idn = {p: i for i, p in enumerate(ncp_payloads)}
    seenn = [idn.get(p, -1) for p in upper.rx]
    if -1 in seenn:
        viol.append(("C01.atmost", "n2h-alien", "host upper layer got a payload the NCP never submitted"))
    dupn = sorted({i for i in seenn if seenn.count(i) > 1})
    if dupn:
        viol.append(("C01.atmost", "n2h-duplicate", f"NCP payloads {dupn} handed to the host upper layer more than once"))
    posn = [ncp.submitted.index(i) for i in seenn if i in ncp.submitted]
    if any(b <= a for a, b in zip(posn, posn[1:])) and not dupn:
        viol.append(("C01.order", "n2h-order", f"host received NCP payloads in order {seenn}"))
    for pid in ncp.acked:
        if upper.rx.count(ncp_payloads[pid]) != 1:
            viol.append(("C01.once", "n2h-acked", f"NCP payload {pid} was acknowledged by the host but handed up {upper.rx.count(ncp_payloads[pid])} times"))
    if outcome == "done":
        pending = [i for i in range(n_host) if i not in results]
        if pending:
            viol.append(("C01.live", "pending", f"sends {pending} neither returned nor raised 120 s after the last fault"))
    if mon.error_unclaimed:
        viol.append(("C05.fail", "error-unreported", f"{mon.error_unclaimed} ERROR frame(s) handed to the host without a failure notification"))
    if transport.raised:
        viol.append(("C02.noraise", "e1", f"data_received raised {transport.raised[0]!r}"))

    probes = dict(mon.probes)
    for k, v in loop.sched_probes.items():
        if v:
            probes["sched." + k] = v
    nok = sum(1 for r in results.values() if r[0] == "ok")
    nexc = sum(1 for r in results.values() if r[0] == "exc")
    ncan = sum(1 for r in results.values() if r[0] == "cancelled")
    if nexc:
        probes["send_raised"] = nexc
    if ncan:
        probes["send_cancelled"] = ncan
    if upper.failures:
        probes["host_link_failed"] = 1
    if ncp.failed is not None:
        probes["ncp_link_failed"] = 1
    if len(mon.data_tx) > 8:
        probes["host_frmnum_wrapped"] = 1
    if len(upper.rx) > 8:
        probes["ncp_frmnum_wrapped"] = 1
    if K > 1:
        probes[f"window_{K}"] = 1
    if loop.exceptions:
        probes["loop_exception"] = len(loop.exceptions)
    if line.n2h.coalesced or line.h2n.coalesced:
        probes["reads_spanning_frames"] = line.n2h.coalesced + line.h2n.coalesced
    fired = dict(plan.fired)
    nontrivial = any(not k.endswith(".deliver") for k in fired) or ncan or nexc
    sig = hashlib.blake2b(repr((K, line.trace, sorted((i, r[0]) for i, r in results.items()))).encode(), digest_size=8).digest()
    digest = hashlib.sha256(repr((log, sorted(results.items()), loop.time(), loop.iters)).encode()).hexdigest()[:16]
    res = {
        "viol": viol, "faults": fired, "probes": probes, "vt": loop.time(), "iters": loop.iters,
        "sig": sig, "digest": digest, "nontrivial": bool(nontrivial),
        "sample": {"K": K, "host_payloads": n_host, "ncp_payloads": n_ncp, "fault_weights": plan.rates if hasattr(plan, "rates") else {},
                   "line_trace_head": [list(x) for x in line.trace[:25]], "send_ok": nok, "send_raised": nexc, "send_cancelled": ncan,
                   "ncp_delivered": len(ncp.delivered), "host_delivered": len(upper.rx)},
        "mon": mon if detail else None,
    }
    if detail:
        res["trace"] = [repr(e) for e in log[:600]]
    res.pop("mon") if not detail else None
    return res
