"""Reference NCP above the ASH endpoint: EZSP framing + stack state.

Independent of bellows at the header and semantic level.  Declared limitation
(DESIGN.md 2.4): command *payloads* are parsed and built with bellows' own
per-version schema tables; the frames whose field layout is itself a property
(C13) are built by hand-written encoders in the property module instead.

Durable state (survives an NCP reset): EUI64, tokens, network parameters, keys,
frame counters, child/key/address tables.  Volatile: configuration, values,
policies, negotiated flag, network-up state, multicast table, endpoints.
"""
from __future__ import annotations

import importlib

from . import refezsp as Z

# (EmberStatus, EzspStatus, sl_Status) numeric codes of the semantic statuses the model produces
STATUS = {
    "OK": (0x00, 0x00, 0x0000),
    "FAIL": (0x01, 0x01, 0x0001),
    "BAD_ARGUMENT": (0x02, 0x36, 0x0021),
    "NOT_FOUND": (0x03, 0x01, 0x002D),
    "NO_BUFFERS": (0x18, 0x35, 0x0019),
    "DELIVERY_FAILED": (0x66, 0x01, 0x0C02),
    "INVALID_CALL": (0x70, 0x38, 0x0002),
    "MAX_MESSAGE_LIMIT_REACHED": (0x72, 0x01, 0x0C03),
    "NETWORK_UP": (0x90, 0x01, 0x0015),
    "NETWORK_DOWN": (0x91, 0x01, 0x0016),
    "NOT_JOINED": (0x93, 0x01, 0x0017),
    "NETWORK_BUSY": (0xA1, 0x01, 0x0034),  # v14: TRANSMIT_BUSY, the third status bellows documents as 'busy' there (not the generic BUSY 0x0004)
    "INDEX_OUT_OF_RANGE": (0xB1, 0x01, 0x0027),
    "TABLE_FULL": (0xB4, 0x01, 0x001C),
    "TABLE_ENTRY_ERASED": (0xB6, 0x01, 0x002D),
    "INVALID_ID": (0x02, 0x37, 0x0021),
    "JOIN_FAILED": (0x94, 0x01, 0x0018),
}

NO_NETWORK, JOINING, JOINED = 0, 1, 2


class St:
    """A semantic status; resolved to a number by the type of the field it is put in."""

    __slots__ = ("name",)

    def __init__(self, name):
        assert name in STATUS, name
        self.name = name

    def __repr__(self):
        return f"St({self.name})"


class Req:
    __slots__ = ("idx", "seq", "fid", "name", "args", "t", "layout", "raw", "rsp", "nrsp")

    def __init__(self, idx, seq, fid, name, args, t, layout, raw):
        self.idx, self.seq, self.fid, self.name, self.args, self.t, self.layout, self.raw = idx, seq, fid, name, args, t, layout, raw
        self.rsp = None  # response payload bytes the model produced for this request
        self.nrsp = 0

    def __repr__(self):
        return f"Req#{self.idx}({self.name} seq={self.seq} t={self.t:.4f})"


_TABLES = {}


def tables(version: int):
    v = min(max(version, 4), 14)
    if v not in _TABLES:
        cmds = importlib.import_module(f"bellows.ezsp.v{v}.commands").COMMANDS
        by_id = {cid: (name, tx, rx) for name, (cid, tx, rx) in cmds.items()}
        _TABLES[v] = (cmds, by_id)
    return _TABLES[v]


def _zero(ty):
    try:
        val, rest = ty.deserialize(b"\x00" * 256)
    except Exception:
        return ty()
    if not rest:  # greedy list type
        return ty()
    return val


class Ncp:
    def __init__(self, loop, tape, version: int, log, *, stack_type=2, stack_version=0x7430):
        import bellows.types as t

        self.t = t
        self.loop, self.tape, self.V, self.log = loop, tape, version, log
        self.layout = Z.layout_of(version)
        self.cmds, self.by_id = tables(version)
        self.stack_type, self.stack_version = stack_type, stack_version
        self.ash = None
        # history
        self.requests = []  # every request accepted in a valid layout
        self.bad_requests = []  # (t, raw, why) requests the NCP could not accept
        self.first_after_reset = []  # per reset: the first EZSP frame seen, (layout, name, desired)
        self.resets = 0
        self.emitted = []  # (t, kind, payload)
        self.last_rsp_seq = 0
        # hooks (instance attributes, replaced by property modules)
        self.deliver = self._deliver_default  # (req, payload) -> None
        self.on_request = None  # (req) -> None, called before the handler
        self.cb_delay = lambda what: 0.0  # delay of a callback relative to its cause
        # durable state
        self.eui64 = bytes.fromhex("0011223344556677")
        self.mfg_tokens = {}
        self.nv3 = {}  # (token, index) -> bytes
        self.has_token_data = version >= 9
        self.formed = False
        self.node_type = 1  # COORDINATOR
        self.node_id = 0x0000
        self.net_params = None
        self.keys = {}
        self.key_table = {}  # index -> (eui64 bytes, key bytes)
        self.children = {}
        self.address_table = {}
        self.nwk_fc = 0
        self.aps_fc = 0
        self.sec = None  # dict(bitmask, tclk, nwk_key, nwk_seq, tc_eui) from setInitialSecurityState
        self.sec_calls = []  # every setInitialSecurityState argument seen (decoded struct)
        self.factory_eui64 = self.eui64
        self.nv3_restored_token = None  # NV3 key id of the restored-EUI64 token if the firmware has one
        self.address_table = {}
        # volatile state
        self._volatile()
        # scenario knobs
        self.config_default = {}  # configId(int) -> value reported before any write; missing -> 8
        self.config_unreadable = set()
        self.config_reject = set()
        self.value_reject = set()
        self.multicast_size = None
        self.multicast_reject = None  # callable(index, entry) -> status name or None
        self.form_status = "OK"
        self.leave_status = "OK"
        self.init_status = None  # override of networkInit status
        self.emit_stack_status = True
        self.auto_confirm = False  # answer sendUnicast with a success messageSentHandler (used during application start-up)
        self.sent_messages = []  # (kind, req idx, dest, tag, aps seq)

    def _volatile(self):
        self.negotiated = False
        self.config = {}
        self.values = {}
        self.policies = {}
        self.net_state = NO_NETWORK
        self.multicast = {}
        self.endpoints = []
        self.config_writes = []  # (configId, value, status name)
        self.value_writes = []
        self.write_log = []  # ("config"|"value", id, value, status name) in arrival order
        self.counters = list(self.counters_boot) if getattr(self, 'counters_boot', None) else [0] * 41  # (counters_boot: traffic counted since boot, set by a check)
        self.ext_timeout = {}
        self.source_routes = []
        self.scan = None

    def attach(self, ash):
        self.ash = ash

    def set_version(self, version: int):
        """The stick was re-flashed with firmware speaking another EZSP version (durable state is kept)."""
        self.V = version
        self.layout = Z.layout_of(version)
        self.cmds, self.by_id = tables(version)
        self.has_token_data = version >= 9
        self.negotiated = False

    # ------------------------------------------------------------ ASH upper layer
    def ncp_reset(self):
        self.resets += 1
        self._volatile()
        self._apply_eui64()
        self.first_after_reset.append(None)
        self.log.append((self.loop.time(), "ncp_ezsp_reset"))

    def ncp_data(self, p: bytes):
        now = self.loop.time()
        if not self.first_after_reset:
            self.first_after_reset.append(None)
        first = self.first_after_reset[-1] is None
        if not self.negotiated and self.layout != "legacy":
            lv = Z.parse_legacy_version(p)
            if lv is not None:
                seq, desired = lv
                if first:
                    self.first_after_reset[-1] = ("legacy", "version", desired)
                req = Req(len(self.requests), seq, 0, "version", {"desiredProtocolVersion": desired}, now, "legacy", p)
                self.requests.append(req)
                self.log.append((now, "ncp_req", req.idx, "version(legacy)", desired))
                body = bytes([self.V & 0xFF, self.stack_type, self.stack_version & 0xFF, self.stack_version >> 8])
                self._send_rsp(req, Z.header("legacy", seq, Z.ID_VERSION) + body)
                return
        own = Z.parse_own(self.V, p)
        if own is None:
            lay, s, fid = Z.classify_host_request(p)
            if first:
                self.first_after_reset[-1] = (lay, fid, None)
            self.bad_requests.append((now, bytes(p), f"not in the NCP's {self.layout} layout (looks like {lay}, frame id {fid})"))
            self.log.append((now, "ncp_bad_request", bytes(p).hex()))
            return
        seq, fid, body = own
        ent = self.by_id.get(fid)
        if ent is None:
            if first:
                self.first_after_reset[-1] = (self.layout, fid, None)
            self.bad_requests.append((now, bytes(p), f"unknown frame id 0x{fid:04X}"))
            self._raw_rsp(seq, Z.ID_INVALID_COMMAND, bytes([0x31]))
            return
        name, tx, _rx = ent
        try:
            args, rest = self._decode(tx, body)
        except Exception as e:  # malformed arguments
            self.bad_requests.append((now, bytes(p), f"arguments of {name} do not decode: {e!r}"))
            self._raw_rsp(seq, Z.ID_INVALID_COMMAND, bytes([0x36]))
            return
        if rest:
            self.bad_requests.append((now, bytes(p), f"{len(rest)} trailing byte(s) after the arguments of {name}"))
        if first:
            self.first_after_reset[-1] = ("legacy" if self.layout == "legacy" else self.layout, name, args.get("desiredProtocolVersion"))
        req = Req(len(self.requests), seq, fid, name, args, now, self.layout, bytes(p))
        self.requests.append(req)
        self.log.append((now, "ncp_req", req.idx, name, seq))
        if name == "version":
            desired = args["desiredProtocolVersion"]
            if desired == self.V:
                self.negotiated = True
            payload = self.encode_rsp(req, (self.V, self.stack_type, self.stack_version))
            if getattr(self, "version_deliver", None) is not None:  # a check wants to decide when (and whether) the version reply goes out
                req.rsp = payload
                self.version_deliver(req, payload)
                return
            self._send_rsp(req, payload)
            return
        if not self.negotiated:
            self.bad_requests.append((now, bytes(p), f"{name} before the version was negotiated"))
            self._raw_rsp(seq, Z.ID_INVALID_COMMAND, bytes([0x30]))
            return
        if self.on_request is not None:
            self.on_request(req)
        h = getattr(self, "h_" + name, None)
        vals = h(req, **args) if h is not None else None
        if vals == "invalid":
            payload = Z.header(self.V, seq, Z.ID_INVALID_COMMAND) + self.invalid_body(0x31)
        elif vals == "none":
            return
        else:
            payload = self.encode_rsp(req, vals)
        req.rsp = payload
        self.deliver(req, payload)

    # ----------------------------------------------------------------- encoding
    def _decode(self, schema, body):
        if isinstance(schema, dict):
            out = {}
            for k, ty in schema.items():
                out[k], body = ty.deserialize(body)
            return out, body
        if schema == () or schema is None:
            return {}, body
        val, body = schema.deserialize(body)
        return {"_struct": val}, body

    def _field(self, ty, v):
        if isinstance(v, St):
            e, z, s = STATUS[v.name]
            n = ty.__name__
            v = s if n == "sl_Status" else (z if n == "EzspStatus" else e)
        return ty(v).serialize()

    def encode_body(self, schema, vals):
        if isinstance(schema, dict):
            tys = list(schema.values())
            if vals is None:
                vals = [_zero(ty) for ty in tys]
            elif isinstance(vals, dict):
                vals = [vals[k] if k in vals else _zero(ty) for k, ty in schema.items()]
            vals = list(vals)
            assert len(vals) == len(tys), (vals, schema)
            return b"".join(self._field(ty, v) for ty, v in zip(tys, vals))
        if schema == () or schema is None:
            return b""
        # Struct response
        if vals is None:
            return _zero(schema).serialize()
        if isinstance(vals, (list, tuple)):
            fields = [f for f in schema.fields]
            kw = {}
            for f, v in zip(fields, vals):
                if isinstance(v, St):
                    e, z, s = STATUS[v.name]
                    n = f.type.__name__
                    v = s if n == "sl_Status" else (z if n == "EzspStatus" else e)
                kw[f.name] = f.type(v)
            return schema(**kw).serialize()
        return vals.serialize()

    def encode_rsp(self, req, vals, seq=None):
        _name, _tx, rx = self.by_id[req.fid]
        return Z.header(self.V, req.seq if seq is None else seq, req.fid) + self.encode_body(rx, vals)

    def encode_cb(self, name, vals, seq=None):
        fid, _tx, rx = self.cmds[name]
        return Z.header(self.V, self.last_rsp_seq if seq is None else seq, fid, Z.FC_ASYNC_CB) + self.encode_body(rx, vals)

    # ----------------------------------------------------------------- emission
    def emit(self, payload: bytes, delay: float = 0.0, kind="rsp", seq=None):
        def go():
            if kind == "rsp" and seq is not None:
                self.last_rsp_seq = seq
            self.emitted.append((self.loop.time(), kind, payload))
            self.log.append((self.loop.time(), "ncp_emit", kind, payload.hex()))
            self.ash.submit(payload, len(self.ash.submitted))

        if delay <= 0:
            go()
        else:
            self.loop.external(self.loop.time() + delay, go, group="ncp-app")

    def invalid_body(self, reason: int) -> bytes:
        """Body of an invalidCommand response: the reason in the status type of this version."""
        rx = self.cmds["invalidCommand"][2]
        return self.encode_body(rx, (reason,))

    def _raw_rsp(self, seq, fid, body):
        if fid == Z.ID_INVALID_COMMAND:
            body = self.invalid_body(body[0])
        self.emit(Z.header(self.V, seq, fid) + body, 0.0, "rsp", seq)

    def _send_rsp(self, req, payload):
        req.rsp = payload
        req.nrsp += 1
        self.emit(payload, 0.0, "rsp", req.seq)

    def _deliver_default(self, req, payload):
        req.nrsp += 1
        self.emit(payload, 0.0, "rsp", req.seq)

    def callback(self, name, vals, delay: float = 0.0, seq=None):
        if delay <= 0:
            self.emit(self.encode_cb(name, vals, seq), 0.0, "cb")
        else:
            self.loop.external(self.loop.time() + delay, lambda: self.emit(self.encode_cb(name, vals, seq), 0.0, "cb"), group="ncp-app")

    def stack_status(self, name, delay=0.0):
        if self.emit_stack_status:
            self.callback("stackStatusHandler", (St(name),), delay)

    # ----------------------------------------------------------------- handlers
    def h_nop(self, req):
        return ()

    def h_echo(self, req, data):
        return (data,)

    def h_getConfigurationValue(self, req, configId):
        cid = int(configId)
        if cid in self.config_unreadable:
            return (St("INVALID_ID"), 0)
        if cid in self.config:
            return (St("OK"), self.config[cid])
        return (St("OK"), self.config_default.get(cid, 8))

    def h_setConfigurationValue(self, req, configId, value):
        cid = int(configId)
        if cid in self.config_reject:
            # a set rejects with INVALID_CALL; a dict names the status per id (NO_BUFFERS = EzspStatus.ERROR_OUT_OF_MEMORY, ...)
            stn = self.config_reject[cid] if isinstance(self.config_reject, dict) else "INVALID_CALL"
            self.config_writes.append((cid, int(value), stn))
            self.write_log.append(("config", cid, int(value), stn))
            return (St(stn),)
        self.config[cid] = int(value)
        self.config_writes.append((cid, int(value), "OK"))
        self.write_log.append(("config", cid, int(value), "OK"))
        return (St("OK"),)

    def h_getValue(self, req, valueId):
        vid = int(valueId)
        if vid in self.values:
            return (St("OK"), self.values[vid])
        if vid == 0x11:  # VALUE_VERSION_INFO: build(2) major minor patch special type
            return (St("OK"), bytes([0x28, 0x01, 7, 4, 3, 0, 0]))
        if vid == 0x03:  # VALUE_FREE_BUFFERS
            return (St("OK"), bytes([0xF0]))
        return (St("OK"), b"\x00")

    def h_setValue(self, req, valueId, value):
        vid = int(valueId)
        if vid in self.value_reject:
            self.value_writes.append((vid, bytes(value), "INVALID_CALL"))
            self.write_log.append(("value", vid, bytes(value), "INVALID_CALL"))
            return (St("INVALID_CALL"),)
        self.values[vid] = bytes(value)
        self.value_writes.append((vid, bytes(value), "OK"))
        self.write_log.append(("value", vid, bytes(value), "OK"))
        if vid == 0x23:  # VALUE_NWK_FRAME_COUNTER
            self.nwk_fc = int.from_bytes(bytes(value)[:4], "little")
        if vid == 0x24:  # VALUE_APS_FRAME_COUNTER
            self.aps_fc = int.from_bytes(bytes(value)[:4], "little")
        return (St("OK"),)

    def h_setPolicy(self, req, policyId, decisionId):
        self.policies[int(policyId)] = int(decisionId)
        return (St("OK"),)

    def h_getEui64(self, req):
        return (self.t.EUI64.deserialize(self.eui64)[0],)

    def h_getNodeId(self, req):
        return (self.node_id,)

    def h_getMfgToken(self, req, tokenId):
        tid = int(tokenId)
        if tid in self.mfg_tokens:
            return (self.mfg_tokens[tid],)
        if tid == 0x01:  # MFG_STRING
            return (b"SimLabs\xff\xff\xff\xff\xff\xff\xff\xff\xff",)
        if tid == 0x02:  # MFG_BOARD_NAME
            return (b"simboard\x00\xff\xff\xff\xff\xff\xff\xff",)
        if tid == 0x0C:  # MFG_CUSTOM_EUI_64
            return (b"\xff" * 8,)
        return (b"",)

    # -- multicast table
    def _mc_size(self):
        if self.multicast_size is not None:
            return self.multicast_size
        return self.config.get(0x06, self.config_default.get(0x06, 8))

    def h_getMulticastTableEntry(self, req, index):
        t = self.t
        if int(index) >= self._mc_size():
            return (St("INDEX_OUT_OF_RANGE"), t.EmberMulticastTableEntry(multicastId=0, endpoint=0, networkIndex=0))
        gid, ep = self.multicast.get(int(index), (0, 0))
        # (mc_netidx: what the firmware reports as the entry's network index - 0; 1 on a multi-network stack; None = old single-network
        # firmware whose answer has no such trailing byte)
        return (St("OK"), t.EmberMulticastTableEntry(multicastId=gid, endpoint=ep, networkIndex=getattr(self, "mc_netidx", 0)))

    def h_setMulticastTableEntry(self, req, index, value):
        if int(index) >= self._mc_size():
            return (St("INDEX_OUT_OF_RANGE"),)
        if self.multicast_reject is not None:
            r = self.multicast_reject(int(index), value)
            if r is not None:
                return (St(r),)
        self.multicast[int(index)] = (int(value.multicastId), int(value.endpoint))
        return (St("OK"),)

    # -- network state machine
    def h_networkState(self, req):
        return (self.net_state,)

    def _net_init(self, req):
        if self.init_status is not None:
            st = self.init_status
        elif not self.formed:
            st = "NOT_JOINED"
        else:
            st = "OK"
        if st == "OK":
            self.net_state = JOINED
            self.stack_status("NETWORK_UP", self.cb_delay("init"))
        return (St(st),)

    def h_networkInit(self, req, **kw):
        return self._net_init(req)

    def h_networkInitExtended(self, req, **kw):
        return self._net_init(req)

    def h_formNetwork(self, req, parameters):
        st = self.form_status
        if st == "OK" and self.net_state != NO_NETWORK:
            st = "INVALID_CALL"
        if st == "OK":
            self.formed = True
            self.net_params = parameters
            self.node_type = 1
            self.node_id = 0x0000
            self.net_state = JOINED
            self.stack_status("NETWORK_UP", self.cb_delay("form"))
        return (St(st),)

    def h_leaveNetwork(self, req, **kw):
        st = self.leave_status
        if st == "OK" and self.net_state == NO_NETWORK:
            st = "INVALID_CALL"
        if st == "OK":
            self.formed = False
            self.net_state = NO_NETWORK
            self.children = {}  # the child table belongs to the network that is being left (link keys and frame counters stay until overwritten)
            self.stack_status("NETWORK_DOWN", self.cb_delay("leave"))
        return (St(st),)

    def h_getNetworkParameters(self, req):
        t = self.t
        if self.net_params is None:
            return None
        return (St("OK"), self.node_type, self.net_params)

    # -- counters
    def h_readCounters(self, req):
        return (list(self.counters),)

    def h_readAndClearCounters(self, req):
        c = list(self.counters)
        self.counters = [0] * len(self.counters)
        return (c,)

    # ------------------------------------------------------------------ identity / tokens
    def _apply_eui64(self):
        """Custom EUI64 (NV3 restored-EUI64 token, else the burnt manufacturing token) takes effect at reset."""
        ff = b"\xff" * 8
        if self.nv3_restored_token is not None:
            v = self.nv3.get((self.nv3_restored_token, 0), ff)
            if v != ff and len(v) == 8:
                self.eui64 = bytes(v)
                return
        m = self.mfg_tokens.get(0x0C, ff)
        self.eui64 = bytes(m) if (m != ff and len(m) == 8) else self.factory_eui64

    def h_setMfgToken(self, req, tokenId, tokenData):
        self.mfg_tokens[int(tokenId)] = bytes(tokenData)
        return (St("OK"),)

    def h_getTokenData(self, req, token, index):
        if not self.has_token_data:
            return "invalid"
        key = (int(token), int(index))
        if key in self.nv3:
            return (St("OK"), self.nv3[key])
        if self.nv3_restored_token is not None and int(token) == self.nv3_restored_token and int(index) == 0:
            return (St("OK"), b"\xff" * 8)
        return (St("NOT_FOUND"), b"")

    def h_setTokenData(self, req, token, index, token_data):
        if not self.has_token_data:
            return "invalid"
        self.nv3[(int(token), int(index))] = bytes(token_data)
        return (St("OK"),)

    def h_tokenFactoryReset(self, req, **kw):
        self.formed = False
        self.net_params = None
        self.sec = None
        self.nwk_fc = 0
        self.aps_fc = 0
        self.children = {}
        self.net_state = NO_NETWORK
        return ()

    # ------------------------------------------------------------------ security
    def _key_table_size(self):
        return self.config.get(0x1E, self.config_default.get(0x1E, 8))

    def h_setInitialSecurityState(self, req, state):
        self.sec_calls.append(state)
        if self.net_state != NO_NETWORK:
            return (St("INVALID_CALL"),)
        self.sec = {"bitmask": int(state.bitmask), "tclk": bytes(state.preconfiguredKey.serialize()), "nwk_key": bytes(state.networkKey.serialize()),
                    "nwk_seq": int(state.networkKeySequenceNumber), "tc_eui": bytes(state.preconfiguredTrustCenterEui64.serialize())}
        return (St("OK"),)

    def h_getCurrentSecurityState(self, req):
        t = self.t
        if self.sec is None or self.net_state != JOINED:
            return (St("NOT_JOINED"), t.EmberCurrentSecurityState(bitmask=0, trustCenterLongAddress=t.EUI64.deserialize(bytes(8))[0]))
        bm = 0x0004 | 0x0010
        if self.sec["bitmask"] & 0x0084 == 0x0084:
            bm |= 0x0084
        tc = self.sec["tc_eui"] if self.sec["bitmask"] & 0x0040 else self.eui64
        return (St("OK"), t.EmberCurrentSecurityState(bitmask=bm, trustCenterLongAddress=t.EUI64.deserialize(tc)[0]))

    def _keystruct(self, ktype, key, out_fc=0, seq=0, partner=b"\xff" * 8, bitmask=0):
        t = self.t
        return t.EmberKeyStruct(bitmask=bitmask, type=ktype, key=t.KeyData.deserialize(key)[0], outgoingFrameCounter=out_fc, incomingFrameCounter=0,
                                sequenceNumber=seq, partnerEUI64=t.EUI64.deserialize(partner)[0])

    def h_getKey(self, req, keyType):
        kt = int(keyType)
        if self.sec is None:
            return (St("NOT_FOUND"), self._keystruct(kt, bytes(16)))
        if kt == 3:  # CURRENT_NETWORK_KEY
            return (St("OK"), self._keystruct(3, self.sec["nwk_key"], self.nwk_fc, self.sec["nwk_seq"], bitmask=0x01 | 0x02))
        if kt == 1:  # TRUST_CENTER_LINK_KEY
            return (St("OK"), self._keystruct(1, self.sec["tclk"], self.aps_fc, 0, bitmask=0x02 | 0x08))
        return (St("NOT_FOUND"), self._keystruct(kt, bytes(16)))

    def h_exportKey(self, req, context):
        t = self.t
        kt = int(context.core_key_type)
        if self.sec is None or kt not in (1, 2):
            return {"status": St("NOT_FOUND"), "key": t.KeyData.deserialize(bytes(16))[0], "context": context}
        key = self.sec["nwk_key"] if kt == 1 else self.sec["tclk"]
        return {"status": St("OK"), "key": t.KeyData.deserialize(key)[0], "context": context}

    def h_getNetworkKeyInfo(self, req):
        t = self.t
        have = self.sec is not None
        info = t.SecurityManagerNetworkKeyInfo(network_key_set=have, alternate_network_key_set=False,
                                               network_key_sequence_number=self.sec["nwk_seq"] if have else 0, alt_network_key_sequence_number=0,
                                               network_key_frame_counter=self.nwk_fc)
        return (St("OK"), info)

    # -- link key table
    def h_clearKeyTable(self, req):
        self.key_table = {}
        return (St("OK"),)

    def h_addOrUpdateKeyTableEntry(self, req, address, linkKey, keyData):
        eui = bytes(address.serialize())
        size = self._key_table_size()
        for i, (e, _k) in self.key_table.items():
            if e == eui:
                self.key_table[i] = (eui, bytes(keyData.serialize()))
                return (St("OK"),)
        for i in range(size):
            if i not in self.key_table:
                self.key_table[i] = (eui, bytes(keyData.serialize()))
                return (St("OK"),)
        return (St("TABLE_FULL"),)

    def h_getKeyTableEntry(self, req, index):
        i = int(index)
        if i >= self._key_table_size():
            return (St("INDEX_OUT_OF_RANGE"), self._keystruct(5, bytes(16)))
        if i not in self.key_table:
            return (St("TABLE_ENTRY_ERASED"), self._keystruct(5, bytes(16)))
        eui, key = self.key_table[i]
        return (St("OK"), self._keystruct(5, key, 0, 0, eui, bitmask=0x02 | 0x04 | 0x08 | 0x10))

    def h_findKeyTableEntry(self, req, address, linkKey):
        eui = bytes(address.serialize())
        for i, (e, _k) in self.key_table.items():
            if e == eui:
                return (i,)
        return (0xFF,)

    def h_eraseKeyTableEntry(self, req, index):
        self.key_table.pop(int(index), None)
        return (St("OK"),)

    def h_importLinkKey(self, req, index, address, key):
        i = int(index)
        if i >= self._key_table_size():
            return (St("INDEX_OUT_OF_RANGE"),)
        self.key_table[i] = (bytes(address.serialize()), bytes(key.serialize()))
        return (St("OK"),)

    def h_exportLinkKeyByIndex(self, req, index):
        t = self.t
        i = int(index)
        zero_key = t.KeyData.deserialize(bytes(16))[0]
        meta = t.SecurityManagerAPSKeyMetadata(bitmask=0, outgoing_frame_counter=0, incoming_frame_counter=0, ttl_in_seconds=0)
        if i >= self._key_table_size() or i not in self.key_table:
            st = "INDEX_OUT_OF_RANGE" if i >= self._key_table_size() else "NOT_FOUND"
            return {"status": St(st), "eui64": t.EUI64.deserialize(bytes(8))[0], "plaintext_key": zero_key, "key_data": meta}
        eui, key = self.key_table[i]
        meta = t.SecurityManagerAPSKeyMetadata(bitmask=0x02 | 0x04 | 0x08, outgoing_frame_counter=0, incoming_frame_counter=0, ttl_in_seconds=0)
        out = {"status": St("OK"), "eui64": t.EUI64.deserialize(eui)[0], "plaintext_key": t.KeyData.deserialize(key)[0], "key_data": meta}
        if self.V >= 14:
            out["context"] = t.SecurityManagerContextV13(core_key_type=4, key_index=i, derived_type=0, eui64=t.EUI64.deserialize(eui)[0],
                                                         multi_network_index=0, flags=0, psa_key_alg_permission=0)
        return out

    # -- child table
    def h_getChildData(self, req, index):
        t = self.t
        i = int(index)
        c = self.children.get(i)
        zero_eui = t.EUI64.deserialize(bytes(8))[0]
        if self.V < 7:
            if c is None:
                return (St("NOT_JOINED"), 0xFFFF, zero_eui, 0)
            return (St("OK"), c[1], t.EUI64.deserialize(c[0])[0], c[2])
        cls = t.EmberChildDataV10 if self.V >= 10 else t.EmberChildDataV7
        extra = {"timeout_remaining": 0} if self.V >= 10 else {}
        if c is None:
            return (St("NOT_JOINED"), cls(eui64=zero_eui, type=0, id=0xFFFF, phy=0, power=0, timeout=0, **extra))
        return (St("OK"), cls(eui64=t.EUI64.deserialize(c[0])[0], type=c[2], id=c[1], phy=0, power=0, timeout=0, **extra))

    def h_setChildData(self, req, index, child_data):
        i = int(index)
        if i >= self.config.get(0x11, self.config_default.get(0x11, 32)):
            return (St("INDEX_OUT_OF_RANGE"),)
        self.children[i] = (bytes(child_data.eui64.serialize()), int(child_data.id), int(child_data.type))
        return (St("OK"),)

    # -- address table (only what start-up and send_packet need)
    def h_getAddressTableRemoteNodeId(self, req, addressTableIndex):
        e = self.address_table.get(int(addressTableIndex))
        return (e[1] if e else 0xFFFF,)

    def h_getAddressTableRemoteEui64(self, req, addressTableIndex):
        e = self.address_table.get(int(addressTableIndex))
        return (self.t.EUI64.deserialize(e[0] if e else bytes(8))[0],)

    def h_getAddressTableInfo(self, req, index):
        e = self.address_table.get(int(index))
        if e is None:
            return (St("NOT_FOUND"), 0xFFFF, self.t.EUI64.deserialize(bytes(8))[0])
        return (St("OK"), e[1], self.t.EUI64.deserialize(e[0])[0])

    # ------------------------------------------------------------------ scans (default behaviour; C17 scripts its own)
    def h_startScan(self, req, scanType, channelMask, duration):
        chans = [c for c in range(11, 27) if int(channelMask) & (1 << c)]
        step = getattr(self, "scan_step", 0.01)  # time per channel
        if getattr(self, "scan_exclusive", False):
            if self.loop.time() < getattr(self, "_scan_busy_until", -1.0):
                return (St("INVALID_CALL"),)  # one scan at a time
            self._scan_busy_until = self.loop.time() + step * (len(chans) + 2)
        if int(scanType) == 0:  # energy scan
            for i, c in enumerate(chans):
                self.callback("energyScanResultHandler", (c, -90 + (c * 7) % 30), step * (i + 1))
        self.callback("scanCompleteHandler", (0, St("OK")), step * (len(chans) + 2))
        return (St("OK"),)

    # ------------------------------------------------------------------ scenario helper
    def preform(self, pan_id=0x1A2B, channel=15, epid=bytes(range(8)), nwk_key=bytes(range(16)), tclk=b"ZigBeeAlliance09", hashed=True):
        """Put the NCP into the state of a coordinator that has formed a network earlier (durable state only)."""
        t = self.t
        self.formed = True
        self.node_type = 1
        self.node_id = 0x0000
        self.net_params = t.EmberNetworkParameters(extendedPanId=t.ExtendedPanId.deserialize(epid)[0], panId=pan_id, radioTxPower=8, radioChannel=channel,
                                                   joinMethod=0, nwkManagerId=0, nwkUpdateId=0, channels=0x07FFF800)
        self.sec = {"bitmask": 0x0004 | 0x0100 | 0x0200 | 0x0800 | 0x1000 | 0x0040 | (0x0084 if hashed else 0), "tclk": bytes(tclk), "nwk_key": bytes(nwk_key),
                    "nwk_seq": 0, "tc_eui": self.eui64}

    # ------------------------------------------------------------------ message sending (default behaviour; C12 scripts its own)
    def _sent_cb(self, mtype, dest, aps, tag, status, msg=b"", delay=0.0):
        if self.V >= 14:
            vals = {"status": St(status), "message_type": mtype, "nwk": dest, "aps_frame": aps, "message_tag": tag, "message": msg}
        else:
            vals = {"type": mtype, "indexOrDestination": dest, "apsFrame": aps, "messageTag": tag, "status": St(status), "messageContents": msg}
        self.callback("messageSentHandler", vals, delay)

    def h_sendUnicast(self, req, **kw):
        if self.V >= 14:
            dest, aps, tag = int(kw["nwk"]), kw["aps_frame"], int(kw["message_tag"])
        else:
            dest, aps, tag = int(kw["indexOrDestination"]), kw["apsFrame"], int(kw["messageTag"])
        self.sent_messages.append(("unicast", req.idx, dest, tag, int(aps.sequence)))
        if self.auto_confirm:
            self._sent_cb(0, dest, aps, tag, "OK", b"", 0.01)
        return (St("OK"), int(aps.sequence))
