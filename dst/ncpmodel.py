"""Reference NCP above the ASH endpoint: EZSP framing + stack state.

Independent of bellows at the header and semantic level.  Declared limitation
(DESIGN.md 2.4): command *payloads* are parsed and built with bellows' own
per-version schema tables; the frames whose field layout is itself a property
(C13) are built by hand-written encoders in the property module instead.

Durable state (survives an NCP reset): EUI64, tokens, network parameters, keys,
frame counters, child/key/address tables.  Volatile: configuration, values,
policies, negotiated flag, network-up state, multicast table, endpoints.
"""
from __future__ import annotations

import importlib

from . import refezsp as Z

# (EmberStatus, EzspStatus, sl_Status) numeric codes of the semantic statuses the model produces
STATUS = {
    "OK": (0x00, 0x00, 0x0000),
    "FAIL": (0x01, 0x01, 0x0001),
    "BAD_ARGUMENT": (0x02, 0x36, 0x0021),
    "NOT_FOUND": (0x03, 0x01, 0x002D),
    "NO_BUFFERS": (0x18, 0x35, 0x0019),
    "DELIVERY_FAILED": (0x66, 0x01, 0x0C02),
    "INVALID_CALL": (0x70, 0x38, 0x0002),
    "MAX_MESSAGE_LIMIT_REACHED": (0x72, 0x01, 0x0C03),
    "NETWORK_UP": (0x90, 0x01, 0x0015),
    "NETWORK_DOWN": (0x91, 0x01, 0x0016),
    "NOT_JOINED": (0x93, 0x01, 0x0017),
    "NETWORK_BUSY": (0xA1, 0x01, 0x0004),
    "INDEX_OUT_OF_RANGE": (0xB1, 0x01, 0x0027),
    "TABLE_FULL": (0xB4, 0x01, 0x001C),
    "TABLE_ENTRY_ERASED": (0xB6, 0x01, 0x002D),
    "INVALID_ID": (0x02, 0x37, 0x0021),
    "JOIN_FAILED": (0x94, 0x01, 0x0018),
}

NO_NETWORK, JOINING, JOINED = 0, 1, 2


class St:
    """A semantic status; resolved to a number by the type of the field it is put in."""

    __slots__ = ("name",)

    def __init__(self, name):
        assert name in STATUS, name
        self.name = name

    def __repr__(self):
        return f"St({self.name})"


class Req:
    __slots__ = ("idx", "seq", "fid", "name", "args", "t", "layout", "raw", "rsp", "nrsp")

    def __init__(self, idx, seq, fid, name, args, t, layout, raw):
        self.idx, self.seq, self.fid, self.name, self.args, self.t, self.layout, self.raw = idx, seq, fid, name, args, t, layout, raw
        self.rsp = None  # response payload bytes the model produced for this request
        self.nrsp = 0

    def __repr__(self):
        return f"Req#{self.idx}({self.name} seq={self.seq} t={self.t:.4f})"


_TABLES = {}


def tables(version: int):
    v = min(max(version, 4), 14)
    if v not in _TABLES:
        cmds = importlib.import_module(f"bellows.ezsp.v{v}.commands").COMMANDS
        by_id = {cid: (name, tx, rx) for name, (cid, tx, rx) in cmds.items()}
        _TABLES[v] = (cmds, by_id)
    return _TABLES[v]


def _zero(ty):
    try:
        val, rest = ty.deserialize(b"\x00" * 256)
    except Exception:
        return ty()
    if not rest:  # greedy list type
        return ty()
    return val


class Ncp:
    def __init__(self, loop, tape, version: int, log, *, stack_type=2, stack_version=0x7430):
        import bellows.types as t

        self.t = t
        self.loop, self.tape, self.V, self.log = loop, tape, version, log
        self.layout = Z.layout_of(version)
        self.cmds, self.by_id = tables(version)
        self.stack_type, self.stack_version = stack_type, stack_version
        self.ash = None
        # history
        self.requests = []  # every request accepted in a valid layout
        self.bad_requests = []  # (t, raw, why) requests the NCP could not accept
        self.first_after_reset = []  # per reset: the first EZSP frame seen, (layout, name, desired)
        self.resets = 0
        self.emitted = []  # (t, kind, payload)
        self.last_rsp_seq = 0
        # hooks (instance attributes, replaced by property modules)
        self.deliver = self._deliver_default  # (req, payload) -> None
        self.on_request = None  # (req) -> None, called before the handler
        self.cb_delay = lambda what: 0.0  # delay of a callback relative to its cause
        # durable state
        self.eui64 = bytes.fromhex("0011223344556677")
        self.mfg_tokens = {}
        self.nv3 = {}  # (token, index) -> bytes
        self.has_token_data = version >= 9
        self.formed = False
        self.node_type = 1  # COORDINATOR
        self.node_id = 0x0000
        self.net_params = None
        self.keys = {}
        self.key_table = []
        self.children = {}
        self.address_table = {}
        self.nwk_fc = 0
        self.aps_fc = 0
        self.sec_state = None
        # volatile state
        self._volatile()
        # scenario knobs
        self.config_default = {}  # configId(int) -> value reported before any write; missing -> 8
        self.config_unreadable = set()
        self.config_reject = set()
        self.value_reject = set()
        self.multicast_size = None
        self.multicast_reject = None  # callable(index, entry) -> status name or None
        self.form_status = "OK"
        self.leave_status = "OK"
        self.init_status = None  # override of networkInit status
        self.emit_stack_status = True

    def _volatile(self):
        self.negotiated = False
        self.config = {}
        self.values = {}
        self.policies = {}
        self.net_state = NO_NETWORK
        self.multicast = {}
        self.endpoints = []
        self.config_writes = []  # (configId, value, status name)
        self.value_writes = []
        self.write_log = []  # ("config"|"value", id, value, status name) in arrival order
        self.counters = [0] * 41
        self.ext_timeout = {}
        self.source_routes = []
        self.scan = None

    def attach(self, ash):
        self.ash = ash

    # ------------------------------------------------------------ ASH upper layer
    def ncp_reset(self):
        self.resets += 1
        self._volatile()
        self.first_after_reset.append(None)
        self.log.append((self.loop.time(), "ncp_ezsp_reset"))

    def ncp_data(self, p: bytes):
        now = self.loop.time()
        if not self.first_after_reset:
            self.first_after_reset.append(None)
        first = self.first_after_reset[-1] is None
        if not self.negotiated and self.layout != "legacy":
            lv = Z.parse_legacy_version(p)
            if lv is not None:
                seq, desired = lv
                if first:
                    self.first_after_reset[-1] = ("legacy", "version", desired)
                req = Req(len(self.requests), seq, 0, "version", {"desiredProtocolVersion": desired}, now, "legacy", p)
                self.requests.append(req)
                self.log.append((now, "ncp_req", req.idx, "version(legacy)", desired))
                body = bytes([self.V & 0xFF, self.stack_type, self.stack_version & 0xFF, self.stack_version >> 8])
                self._send_rsp(req, Z.header("legacy", seq, Z.ID_VERSION) + body)
                return
        own = Z.parse_own(self.V, p)
        if own is None:
            lay, s, fid = Z.classify_host_request(p)
            if first:
                self.first_after_reset[-1] = (lay, fid, None)
            self.bad_requests.append((now, bytes(p), f"not in the NCP's {self.layout} layout (looks like {lay}, frame id {fid})"))
            self.log.append((now, "ncp_bad_request", bytes(p).hex()))
            return
        seq, fid, body = own
        ent = self.by_id.get(fid)
        if ent is None:
            if first:
                self.first_after_reset[-1] = (self.layout, fid, None)
            self.bad_requests.append((now, bytes(p), f"unknown frame id 0x{fid:04X}"))
            self._raw_rsp(seq, Z.ID_INVALID_COMMAND, bytes([0x31]))
            return
        name, tx, _rx = ent
        try:
            args, rest = self._decode(tx, body)
        except Exception as e:  # malformed arguments
            self.bad_requests.append((now, bytes(p), f"arguments of {name} do not decode: {e!r}"))
            self._raw_rsp(seq, Z.ID_INVALID_COMMAND, bytes([0x36]))
            return
        if rest:
            self.bad_requests.append((now, bytes(p), f"{len(rest)} trailing byte(s) after the arguments of {name}"))
        if first:
            self.first_after_reset[-1] = ("legacy" if self.layout == "legacy" else self.layout, name, args.get("desiredProtocolVersion"))
        req = Req(len(self.requests), seq, fid, name, args, now, self.layout, bytes(p))
        self.requests.append(req)
        self.log.append((now, "ncp_req", req.idx, name, seq))
        if name == "version":
            desired = args["desiredProtocolVersion"]
            if desired == self.V:
                self.negotiated = True
            self._send_rsp(req, self.encode_rsp(req, (self.V, self.stack_type, self.stack_version)))
            return
        if not self.negotiated:
            self.bad_requests.append((now, bytes(p), f"{name} before the version was negotiated"))
            self._raw_rsp(seq, Z.ID_INVALID_COMMAND, bytes([0x30]))
            return
        if self.on_request is not None:
            self.on_request(req)
        h = getattr(self, "h_" + name, None)
        vals = h(req, **args) if h is not None else None
        if vals == "invalid":
            payload = Z.header(self.V, seq, Z.ID_INVALID_COMMAND) + bytes([0x31])
        elif vals == "none":
            return
        else:
            payload = self.encode_rsp(req, vals)
        req.rsp = payload
        self.deliver(req, payload)

    # ----------------------------------------------------------------- encoding
    def _decode(self, schema, body):
        if isinstance(schema, dict):
            out = {}
            for k, ty in schema.items():
                out[k], body = ty.deserialize(body)
            return out, body
        if schema == () or schema is None:
            return {}, body
        val, body = schema.deserialize(body)
        return {"_struct": val}, body

    def _field(self, ty, v):
        if isinstance(v, St):
            e, z, s = STATUS[v.name]
            n = ty.__name__
            v = s if n == "sl_Status" else (z if n == "EzspStatus" else e)
        return ty(v).serialize()

    def encode_body(self, schema, vals):
        if isinstance(schema, dict):
            tys = list(schema.values())
            if vals is None:
                vals = [_zero(ty) for ty in tys]
            vals = list(vals)
            assert len(vals) == len(tys), (vals, schema)
            return b"".join(self._field(ty, v) for ty, v in zip(tys, vals))
        if schema == () or schema is None:
            return b""
        # Struct response
        if vals is None:
            return _zero(schema).serialize()
        if isinstance(vals, (list, tuple)):
            fields = [f for f in schema.fields]
            kw = {}
            for f, v in zip(fields, vals):
                if isinstance(v, St):
                    e, z, s = STATUS[v.name]
                    n = f.type.__name__
                    v = s if n == "sl_Status" else (z if n == "EzspStatus" else e)
                kw[f.name] = f.type(v)
            return schema(**kw).serialize()
        return vals.serialize()

    def encode_rsp(self, req, vals, seq=None):
        _name, _tx, rx = self.by_id[req.fid]
        return Z.header(self.V, req.seq if seq is None else seq, req.fid) + self.encode_body(rx, vals)

    def encode_cb(self, name, vals, seq=None):
        fid, _tx, rx = self.cmds[name]
        return Z.header(self.V, self.last_rsp_seq if seq is None else seq, fid, Z.FC_ASYNC_CB) + self.encode_body(rx, vals)

    # ----------------------------------------------------------------- emission
    def emit(self, payload: bytes, delay: float = 0.0, kind="rsp", seq=None):
        def go():
            if kind == "rsp" and seq is not None:
                self.last_rsp_seq = seq
            self.emitted.append((self.loop.time(), kind, payload))
            self.log.append((self.loop.time(), "ncp_emit", kind, payload.hex()))
            self.ash.submit(payload, len(self.ash.submitted))

        if delay <= 0:
            go()
        else:
            self.loop.external(self.loop.time() + delay, go, group="ncp-app")

    def _raw_rsp(self, seq, fid, body):
        self.emit(Z.header(self.V, seq, fid) + body, 0.0, "rsp", seq)

    def _send_rsp(self, req, payload):
        req.rsp = payload
        req.nrsp += 1
        self.emit(payload, 0.0, "rsp", req.seq)

    def _deliver_default(self, req, payload):
        req.nrsp += 1
        self.emit(payload, 0.0, "rsp", req.seq)

    def callback(self, name, vals, delay: float = 0.0, seq=None):
        if delay <= 0:
            self.emit(self.encode_cb(name, vals, seq), 0.0, "cb")
        else:
            self.loop.external(self.loop.time() + delay, lambda: self.emit(self.encode_cb(name, vals, seq), 0.0, "cb"), group="ncp-app")

    def stack_status(self, name, delay=0.0):
        if self.emit_stack_status:
            self.callback("stackStatusHandler", (St(name),), delay)

    # ----------------------------------------------------------------- handlers
    def h_nop(self, req):
        return ()

    def h_echo(self, req, data):
        return (data,)

    def h_getConfigurationValue(self, req, configId):
        cid = int(configId)
        if cid in self.config_unreadable:
            return (St("INVALID_ID"), 0)
        if cid in self.config:
            return (St("OK"), self.config[cid])
        return (St("OK"), self.config_default.get(cid, 8))

    def h_setConfigurationValue(self, req, configId, value):
        cid = int(configId)
        if cid in self.config_reject:
            self.config_writes.append((cid, int(value), "INVALID_CALL"))
            self.write_log.append(("config", cid, int(value), "INVALID_CALL"))
            return (St("INVALID_CALL"),)
        self.config[cid] = int(value)
        self.config_writes.append((cid, int(value), "OK"))
        self.write_log.append(("config", cid, int(value), "OK"))
        return (St("OK"),)

    def h_getValue(self, req, valueId):
        vid = int(valueId)
        if vid in self.values:
            return (St("OK"), self.values[vid])
        if vid == 0x11:  # VALUE_VERSION_INFO: build(2) major minor patch special type
            return (St("OK"), bytes([0x28, 0x01, 7, 4, 3, 0, 0]))
        if vid == 0x03:  # VALUE_FREE_BUFFERS
            return (St("OK"), bytes([0xF0]))
        return (St("OK"), b"\x00")

    def h_setValue(self, req, valueId, value):
        vid = int(valueId)
        if vid in self.value_reject:
            self.value_writes.append((vid, bytes(value), "INVALID_CALL"))
            self.write_log.append(("value", vid, bytes(value), "INVALID_CALL"))
            return (St("INVALID_CALL"),)
        self.values[vid] = bytes(value)
        self.value_writes.append((vid, bytes(value), "OK"))
        self.write_log.append(("value", vid, bytes(value), "OK"))
        if vid == 0x23:  # VALUE_NWK_FRAME_COUNTER
            self.nwk_fc = int.from_bytes(bytes(value)[:4], "little")
        if vid == 0x24:  # VALUE_APS_FRAME_COUNTER
            self.aps_fc = int.from_bytes(bytes(value)[:4], "little")
        return (St("OK"),)

    def h_setPolicy(self, req, policyId, decisionId):
        self.policies[int(policyId)] = int(decisionId)
        return (St("OK"),)

    def h_getEui64(self, req):
        return (self.t.EUI64.deserialize(self.eui64)[0],)

    def h_getNodeId(self, req):
        return (self.node_id,)

    def h_getMfgToken(self, req, tokenId):
        tid = int(tokenId)
        if tid in self.mfg_tokens:
            return (self.mfg_tokens[tid],)
        if tid == 0x01:  # MFG_STRING
            return (b"SimLabs\xff\xff\xff\xff\xff\xff\xff\xff\xff",)
        if tid == 0x02:  # MFG_BOARD_NAME
            return (b"simboard\x00\xff\xff\xff\xff\xff\xff\xff",)
        if tid == 0x0C:  # MFG_CUSTOM_EUI_64
            return (b"\xff" * 8,)
        return (b"",)

    # -- multicast table
    def _mc_size(self):
        if self.multicast_size is not None:
            return self.multicast_size
        return self.config.get(0x06, self.config_default.get(0x06, 8))

    def h_getMulticastTableEntry(self, req, index):
        t = self.t
        if int(index) >= self._mc_size():
            return (St("INDEX_OUT_OF_RANGE"), t.EmberMulticastTableEntry(multicastId=0, endpoint=0, networkIndex=0))
        gid, ep = self.multicast.get(int(index), (0, 0))
        return (St("OK"), t.EmberMulticastTableEntry(multicastId=gid, endpoint=ep, networkIndex=0))

    def h_setMulticastTableEntry(self, req, index, value):
        if int(index) >= self._mc_size():
            return (St("INDEX_OUT_OF_RANGE"),)
        if self.multicast_reject is not None:
            r = self.multicast_reject(int(index), value)
            if r is not None:
                return (St(r),)
        self.multicast[int(index)] = (int(value.multicastId), int(value.endpoint))
        return (St("OK"),)

    # -- network state machine
    def h_networkState(self, req):
        return (self.net_state,)

    def _net_init(self, req):
        if self.init_status is not None:
            st = self.init_status
        elif not self.formed:
            st = "NOT_JOINED"
        else:
            st = "OK"
        if st == "OK":
            self.net_state = JOINED
            self.stack_status("NETWORK_UP", self.cb_delay("init"))
        return (St(st),)

    def h_networkInit(self, req, **kw):
        return self._net_init(req)

    def h_networkInitExtended(self, req, **kw):
        return self._net_init(req)

    def h_formNetwork(self, req, parameters):
        st = self.form_status
        if st == "OK" and self.net_state != NO_NETWORK:
            st = "INVALID_CALL"
        if st == "OK":
            self.formed = True
            self.net_params = parameters
            self.node_type = 1
            self.node_id = 0x0000
            self.net_state = JOINED
            self.stack_status("NETWORK_UP", self.cb_delay("form"))
        return (St(st),)

    def h_leaveNetwork(self, req, **kw):
        st = self.leave_status
        if st == "OK" and self.net_state == NO_NETWORK:
            st = "INVALID_CALL"
        if st == "OK":
            self.formed = False
            self.net_state = NO_NETWORK
            self.stack_status("NETWORK_DOWN", self.cb_delay("leave"))
        return (St(st),)

    def h_getNetworkParameters(self, req):
        t = self.t
        if self.net_params is None:
            return None
        return (St("OK"), self.node_type, self.net_params)

    # -- counters
    def h_readCounters(self, req):
        return (list(self.counters),)

    def h_readAndClearCounters(self, req):
        c = list(self.counters)
        self.counters = [0] * len(self.counters)
        return (c,)
