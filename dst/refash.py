"""Reference ASH implementation written from UG101, independent of bellows.

codec       bitwise CRC-CCITT, LFSR, stuffing, encoders/decoders for all six
            frame types with every control bit addressable
Decoder     byte stream -> frames, per UG101's reserved-byte table
HostReceiverModel   specification-derived host receive state machine
NcpEndpoint a conforming NCP-side ASH endpoint (go-back-N, window 1..3)
"""
from __future__ import annotations

FLAG, ESC, XON, XOFF, SUB, CAN = 0x7E, 0x7D, 0x11, 0x13, 0x18, 0x1A
RESERVED = (FLAG, ESC, XON, XOFF, SUB, CAN)
_RESERVED_SET = frozenset(RESERVED)

RESET_SOFTWARE = 0x0B
ERROR_MAX_ACK_TIMEOUT = 0x51


# ---------------------------------------------------------------- codec
def crc16(data: bytes) -> int:
    """CRC-CCITT, polynomial 0x1021, initial value 0xFFFF, MSB first, no final XOR."""
    crc = 0xFFFF
    for b in data:
        crc ^= b << 8
        for _ in range(8):
            if crc & 0x8000:
                crc = ((crc << 1) ^ 0x1021) & 0xFFFF
            else:
                crc = (crc << 1) & 0xFFFF
    return crc


# table-driven variant used on hot paths; checked against the bitwise one at import
_CRC_TABLE = []
for _i in range(256):
    _c = _i << 8
    for _ in range(8):
        _c = ((_c << 1) ^ 0x1021) & 0xFFFF if _c & 0x8000 else (_c << 1) & 0xFFFF
    _CRC_TABLE.append(_c)


def crc16_fast(data: bytes) -> int:
    crc = 0xFFFF
    tab = _CRC_TABLE
    for b in data:
        crc = ((crc << 8) & 0xFFFF) ^ tab[(crc >> 8) ^ b]
    return crc


assert all(crc16(bytes([i, 255 - i, 7])) == crc16_fast(bytes([i, 255 - i, 7])) for i in range(256))


def lfsr(n: int) -> list[int]:
    """UG101 pseudo-random sequence: seed 0x42; if bit0==0 shift right, else shift right and XOR 0xB8."""
    out = []
    r = 0x42
    for _ in range(n):
        out.append(r)
        r = (r >> 1) ^ 0xB8 if r & 1 else r >> 1
    return out


_RND = lfsr(512)


def randomize(b: bytes) -> bytes:
    return bytes(x ^ y for x, y in zip(b, _RND))


def stuff(b: bytes) -> bytes:
    o = bytearray()
    for c in b:
        if c in _RESERVED_SET:
            o.append(ESC)
            o.append(c ^ 0x20)
        else:
            o.append(c)
    return bytes(o)


def unstuff(b: bytes):
    """Returns (bytes, ok). ok False when an escaped byte is not a reserved value."""
    o = bytearray()
    e = False
    for c in b:
        if e:
            v = c ^ 0x20
            if v not in _RESERVED_SET:
                return bytes(o), False
            o.append(v)
            e = False
        elif c == ESC:
            e = True
        else:
            o.append(c)
    # a dangling ESCAPE (followed by the FLAG) has no effect
    return bytes(o), True


def with_crc(frame_wo_crc: bytes) -> bytes:
    return frame_wo_crc + crc16_fast(frame_wo_crc).to_bytes(2, "big")


def flip_bits(raw: bytes, bits) -> bytes:
    f = bytearray(raw)
    for bit in bits:
        f[bit // 8] ^= 1 << (bit % 8)
    return bytes(f)


def wire(frame_wo_crc: bytes, flips=()) -> bytes:
    """Full wire encoding: CRC appended, optional bit flips before stuffing, stuffed, FLAG."""
    raw = with_crc(frame_wo_crc)
    if flips:
        raw = flip_bits(raw, flips)
    return stuff(raw) + bytes([FLAG])


def wire_raw(raw_with_crc: bytes) -> bytes:
    return stuff(raw_with_crc) + bytes([FLAG])


def f_data(frm: int, retx: int, ack: int, payload: bytes) -> bytes:
    return bytes([((frm & 7) << 4) | ((retx & 1) << 3) | (ack & 7)]) + randomize(payload)


def f_ack(ack: int, nrdy: int = 0, res: int = 0) -> bytes:
    return bytes([0x80 | ((res & 1) << 4) | ((nrdy & 1) << 3) | (ack & 7)])


def f_nak(ack: int, nrdy: int = 0, res: int = 0) -> bytes:
    return bytes([0xA0 | ((res & 1) << 4) | ((nrdy & 1) << 3) | (ack & 7)])


def f_rst() -> bytes:
    return bytes([0xC0])


def f_rstack(code: int, version: int = 2) -> bytes:
    return bytes([0xC1, version, code])


def f_error(code: int, version: int = 2) -> bytes:
    return bytes([0xC2, version, code])


def parse_raw(o: bytes):
    """Unstuffed frame bytes (control .. crc) -> frame tuple.

    ('data', frm, retx, ack, payload) ('ack', n, nrdy, res) ('nak', n, nrdy, res)
    ('rst',) ('rstack', code) ('error', code) ('bad', reason)"""
    if len(o) < 3:
        return ("bad", "short")
    if crc16_fast(o[:-2]) != ((o[-2] << 8) | o[-1]):
        return ("bad", "crc")
    c = o[0]
    body = bytes(o[1:-2])
    if c & 0x80 == 0:
        if len(body) > 256:
            return ("bad", "long")
        return ("data", (c >> 4) & 7, (c >> 3) & 1, c & 7, randomize(body))
    if c & 0xE0 == 0x80:
        return ("ack", c & 7, (c >> 3) & 1, (c >> 4) & 1)
    if c & 0xE0 == 0xA0:
        return ("nak", c & 7, (c >> 3) & 1, (c >> 4) & 1)
    if c == 0xC0:
        return ("rst",) if not body else ("bad", "rstlen")
    if c == 0xC1 or c == 0xC2:
        if len(body) != 2 or body[0] != 0x02:
            return ("bad", "rstacklen")
        return ("rstack" if c == 0xC1 else "error", body[1])
    return ("bad", "control")


class Decoder:
    """Byte stream -> frames according to UG101's reserved-byte rules.

    FLAG ends the frame in progress; CANCEL discards back to the previous FLAG;
    SUBSTITUTE discards up to and including the next FLAG; XON/XOFF are removed;
    empty frames are ignored."""

    __slots__ = ("buf", "discard")

    def __init__(self):
        self.buf = bytearray()
        self.discard = False

    def feed(self, data: bytes) -> list:
        out = []
        buf = self.buf
        for b in data:
            if b == FLAG:
                if not self.discard and buf:
                    raw, ok = unstuff(bytes(buf))
                    out.append(parse_raw(raw) if ok else ("bad", "escape"))
                buf.clear()
                self.discard = False
            elif b == CAN:
                buf.clear()
            elif b == SUB:
                self.discard = True
                buf.clear()
            elif b == XON or b == XOFF:
                pass
            else:
                if not self.discard:
                    buf.append(b)
        return out


def decode_one_write(data: bytes):
    """Parse exactly one host write: CANCEL* + stuffed body + FLAG.

    Returns (n_cancel, frame_tuple, raw_unstuffed) or raises ValueError with the reason."""
    i = 0
    while i < len(data) and data[i] == CAN:
        i += 1
    body = data[i:]
    if not body or body[-1] != FLAG:
        raise ValueError("write does not end in a single FLAG")
    body = body[:-1]
    # stuffed body: no reserved byte other than ESC followed by (reserved ^ 0x20)
    j = 0
    while j < len(body):
        c = body[j]
        if c == ESC:
            if j + 1 >= len(body) or (body[j + 1] ^ 0x20) not in _RESERVED_SET:
                raise ValueError("ESCAPE not followed by an escaped reserved value")
            j += 2
            continue
        if c in _RESERVED_SET:
            raise ValueError(f"unescaped reserved byte 0x{c:02X} in frame body")
        j += 1
    raw, ok = unstuff(body)
    if not ok:
        raise ValueError("bad escape")
    fr = parse_raw(raw)
    if fr[0] == "bad":
        raise ValueError("frame does not parse: " + fr[1])
    return i, fr, raw


def reencode(fr) -> bytes:
    """Independent encoder: frame tuple -> stuffed bytes + FLAG (no prefix)."""
    k = fr[0]
    if k == "data":
        return wire(f_data(fr[1], fr[2], fr[3], fr[4]))
    if k == "ack":
        return wire(f_ack(fr[1], fr[2], fr[3]))
    if k == "nak":
        return wire(f_nak(fr[1], fr[2], fr[3]))
    if k == "rst":
        return wire(f_rst())
    if k == "rstack":
        return wire(f_rstack(fr[1]))
    if k == "error":
        return wire(f_error(fr[1]))
    raise ValueError(k)


# ------------------------------------------------- host receiver model
class HostReceiverModel:
    """Specification-derived host receive state machine.

    feed(bytes) appends to .up  : ('up', payload) | ('reset', code)
                           .wr  : ('ack', n) | ('nak', n)
                           .ev  : both, in canonical order (write before upward call)
    """

    def __init__(self, rx: int = 0):
        self.dec = Decoder()
        self.rx = rx
        self.up = []
        self.wr = []
        self.ev = []
        self.frames = []  # decoded frame tuples, for coverage accounting

    def feed(self, data: bytes):
        for fr in self.dec.feed(data):
            self.frame(fr)

    def frame(self, fr):
        self.frames.append(fr)
        k = fr[0]
        if k == "bad":
            self._w(("nak", self.rx))
        elif k == "data":
            _, frm, retx, _ack, payload = fr
            if frm == self.rx:
                self.rx = (self.rx + 1) % 8
                self._w(("ack", self.rx))
                self._u(("up", payload))
            elif retx:
                self._w(("ack", self.rx))
            else:
                self._w(("nak", self.rx))
        elif k == "rstack":
            self.rx = 0
            self._u(("reset", fr[1]))
        elif k == "error":
            self._u(("reset", fr[1]))
        # ack / nak / rst: no upward delivery, nothing written

    def _w(self, e):
        self.wr.append(e)
        self.ev.append(e)

    def _u(self, e):
        self.up.append(e)
        self.ev.append(e)


# ------------------------------------------------------- NCP endpoint
T_RX_ACK_INIT, T_RX_ACK_MIN, T_RX_ACK_MAX = 1.6, 0.4, 3.2
T_TX_ACK_DELAY = 0.02


class NcpEndpoint:
    """A conforming NCP-side ASH endpoint.

    upper:   object with ncp_data(payload) called for each accepted DATA frame and
             ncp_reset() when an RST is processed (before the RSTACK is emitted)
    emit:    callable(frame_wo_crc: bytes, kind: str) that puts a frame on the line
    tape:    decides standalone/immediate vs delayed ACK
    """

    def __init__(self, loop, tape, emit, upper=None, K: int = 1, ack_timeouts: int = 4,
                 reset_code: int = RESET_SOFTWARE, log=None):
        self.loop = loop
        self.tape = tape
        self.emit = emit
        self.upper = upper
        self.K = K
        self.ack_timeouts = ack_timeouts
        self.reset_code = reset_code
        self.log = log if log is not None else []
        self.dec = Decoder()
        self.connected = True  # False before the first RST in engines that model power-up
        self.silent = False  # fault: NCP stops doing anything
        self.deaf = False  # fault: the NCP no longer takes host DATA frames (no ACK, no NAK, no delivery) but keeps talking itself
        self.silent_mode = None  # with silent: None = says nothing at all; "nak" = rejects every DATA frame (NAK, never an ACK); "naklast" = nothing, except a NAK for the 5th copy of a frame
        self._silent_seen = {}
        self.rst_delay = 0.0  # time the NCP takes to process an RST
        self._init_state()
        # history (survives resets)
        self.delivered = []  # payloads handed to the NCP upper layer
        self.acked = []  # ids of NCP payloads acknowledged by the host
        self.submitted = []  # ids in submission order
        self.resets = 0

    def _init_state(self):
        self.frm_tx = 0
        self.frm_rx = 0
        self.unacked = []  # [(frm, payload, pid)]
        self.queue = []
        self.reject = False
        self.failed = None
        self.t_rx_ack = T_RX_ACK_INIT
        self.timer = None
        self.timeouts = 0
        self.ack_timer = None
        self.sent_at = {}

    # -- transmit side
    def submit(self, payload: bytes, pid=None):
        self.submitted.append(pid)
        self.queue.append((payload, pid))
        self._pump()

    def _pump(self):
        while self.failed is None and not self.silent and self.queue and len(self.unacked) < self.K:
            payload, pid = self.queue.pop(0)
            frm = self.frm_tx
            self.frm_tx = (frm + 1) % 8
            self.unacked.append((frm, payload, pid))
            self.sent_at[frm] = self.loop.time()
            self._cancel_ack_timer()  # ackNum is piggy-backed
            self.emit(f_data(frm, 0, self.frm_rx, payload), "data")
            if self.timer is None:
                self._start_timer()

    def _start_timer(self):
        if self.timer is not None:
            self.timer.cancel()
        self.timer = self.loop.call_later(self.t_rx_ack, self._timeout)

    def _timeout(self):
        self.timer = None
        if self.failed is not None or not self.unacked or self.silent:
            return
        self.timeouts += 1
        self.t_rx_ack = min(T_RX_ACK_MAX, self.t_rx_ack * 2)
        if self.timeouts > self.ack_timeouts:
            self._fail(ERROR_MAX_ACK_TIMEOUT)
            return
        self._retransmit()

    def _retransmit(self):
        for frm, payload, _pid in self.unacked:
            self.emit(f_data(frm, 1, self.frm_rx, payload), "data")
        self._cancel_ack_timer()
        self._start_timer()

    def _fail(self, code: int):
        self.failed = code
        self.log.append(("ncp_failed", code))
        if self.timer is not None:
            self.timer.cancel()
            self.timer = None
        self.emit(f_error(code), "error")

    def force_error(self, code: int):
        """Fault injection: the NCP enters its ERROR state on its own."""
        if self.failed is None:
            self._fail(code)

    def _cancel_ack_timer(self):
        if self.ack_timer is not None:
            self.ack_timer.cancel()
            self.ack_timer = None

    def _send_ack(self):
        self.ack_timer = None
        if self.failed is None and not self.silent:
            self.emit(f_ack(self.frm_rx), "ack")

    def _schedule_ack(self):
        if self.ack_timer is None:
            self.ack_timer = self.loop.call_later(T_TX_ACK_DELAY, self._send_ack)

    # -- receive side
    def feed(self, data: bytes):
        if self.silent:
            if self.silent_mode is not None:
                # an NCP that has stopped ACKNOWLEDGING without going quiet: it no longer accepts anything
                for fr in self.dec.feed(data):
                    if fr[0] == "data":
                        k = (fr[1], fr[4])
                        self._silent_seen[k] = self._silent_seen.get(k, 0) + 1
                        if self.silent_mode == "nak" or self._silent_seen[k] >= 5:
                            self.emit(f_nak(self.frm_rx), "nak")
            return
        for fr in self.dec.feed(data):
            self._frame(fr)

    def _process_ack(self, ack: int):
        base = self.unacked[0][0] if self.unacked else self.frm_tx
        n = (ack - base) % 8
        if n == 0 or n > len(self.unacked):
            return
        for _ in range(n):
            frm, _payload, pid = self.unacked.pop(0)
            self.acked.append(pid)
            self.log.append(("ncp_acked", pid))
            rtt = self.loop.time() - self.sent_at.get(frm, self.loop.time())
            self.t_rx_ack = max(T_RX_ACK_MIN, min(T_RX_ACK_MAX, self.t_rx_ack * 7 / 8 + rtt / 2))
        self.timeouts = 0
        if self.unacked:
            self._start_timer()
        elif self.timer is not None:
            self.timer.cancel()
            self.timer = None
        self._pump()

    def _frame(self, fr):
        kind = fr[0]
        if kind == "rst":
            if self.rst_delay:
                self.loop.call_later(self.rst_delay, self.do_reset)
            else:
                self.do_reset()
            return
        if self.failed is not None:
            # in the ERROR state every frame except RST is answered by ERROR
            self.emit(f_error(self.failed), "error")
            return
        if kind == "bad":
            if not self.reject:
                self.reject = True
                self.emit(f_nak(self.frm_rx), "nak")
            return
        if kind == "data":
            _, frm, retx, ack, payload = fr
            self._process_ack(ack)
            if self.failed is not None or self.deaf:
                return
            if frm == self.frm_rx:
                self.frm_rx = (frm + 1) % 8
                self.reject = False
                self.delivered.append(payload)
                self.log.append(("ncp_rx", payload))
                if self.tape.draw(2, "ncp.ackdelay"):
                    self._schedule_ack()
                else:
                    self._cancel_ack_timer()
                    self._send_ack()
                if self.upper is not None:
                    self.upper.ncp_data(payload)
            elif retx:
                self._cancel_ack_timer()
                self._send_ack()
            elif not self.reject:
                self.reject = True
                self.emit(f_nak(self.frm_rx), "nak")
        elif kind == "ack":
            self._process_ack(fr[1])
        elif kind == "nak":
            self._process_ack(fr[1])
            if self.unacked and self.failed is None:
                self._retransmit()
        # rstack / error from the host: ignored

    def do_reset(self, code=None):
        if self.silent:
            return
        if self.timer is not None:
            self.timer.cancel()
        self._cancel_ack_timer()
        self._init_state()
        self.dec = Decoder()
        self.resets += 1
        self.log.append(("ncp_reset",))
        if self.upper is not None:
            self.upper.ncp_reset()
        self.emit(f_rstack(self.reset_code if code is None else code), "rstack")
