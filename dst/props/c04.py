"""C04 - the host receiver never hands a frame up twice or out of order (engine E2, frame-sequence mode)."""
import hashlib
import itertools

from .. import e2
from .. import refash as R

ID = "C04"
LEVEL = "exploration"
ENGINE = "E2 ashpeer"
TECHNIQUE = ("deterministic simulation: enumerated and seeded frame sequences from a scripted peer, random read chunking, checked read by read against a reference receive state machine"
             ' The live-link engine E1 (host frames in flight, windowed reference NCP, line faults, reads spanning frame boundaries) is a further seeded scenario of this check, with the reference receiver fed the same bytes.')
LEVEL_TEXT = ("complete sweep of all sequences up to a length bound over a 12-symbol relative frame alphabet from each of the 8 expected-number "
              "states, plus long seeded sequences crossing the modulo-8 wrap; exploration beyond the swept length")
COMPONENTS = e2.COMPONENTS
RULE = ("sweep: all sequences of length <= L over {DATA in-seq/prev/next x reTx 0/1, ACK, NAK, RST, RSTACK(software), RSTACK(power-on), ERROR} "
        "from every expected-number state 0..7; random: up to 400 frames biased to next-expected/previous/next+1 with random field values, "
        "payloads and read chunking (several frames per read or one frame over several reads). Every sequence has at least one frame; "
        "distinct = distinct (start state, symbol sequence) or distinct random streams; non-trivial = at least one DATA/RSTACK/ERROR frame.")
ASSUMPTIONS = [
    "for a rejected DATA frame either ACK or NAK is accepted only in so far as the reference chooses it by the reTx rule of UG101 (reTx set => ACK, else NAK)",
    "the reference receive state machine (dst/refash.HostReceiverModel) is correct",
]
PROBES = ["accepted", "dup_retx", "out_of_seq", "rstack", "error", "wrap", "multi_frame_read", "split_frame_read", "host_rst_outstanding"]

SYMS = ("d0", "d0r", "dn", "dnr", "dp", "dpr", "ack", "nak", "rst", "rstack_sw", "rstack_po", "error")


def plan(tier):
    L = 3 if tier == "quick" else 5
    sweeps = []
    for rx in range(8):
        if L <= 3:
            sweeps.append(("seq", {"rx": rx, "L": L, "first": None}))
        else:
            for f in range(len(SYMS)):
                sweeps.append(("seq", {"rx": rx, "L": L, "first": f}))
    return {
        "sweeps": sweeps,
        "exhaustive": f"all frame sequences of length 1..{L} over the 12-symbol relative alphabet from each expected-number state 0..7, one frame per read",
        "random": [("long", {"n": 20}, 1), ("link", {}, 1)],
        "runs": 1600 if tier == "quick" else None,
        "budget_s": 60 if tier == "quick" else 900,
        "batch": 10,
    }


def sym_frame(sym, rx, k):
    pl = bytes([0x40 + k, rx, 0x7E, 0x11])
    ack = (k * 3) % 8
    if sym[0] == "d":
        frm = {"0": rx, "n": (rx + 1) % 8, "p": (rx - 1) % 8}[sym[1]]
        return R.f_data(frm, 1 if sym.endswith("r") else 0, ack, pl)
    if sym == "ack":
        return R.f_ack(ack)
    if sym == "nak":
        return R.f_nak(ack)
    if sym == "rst":
        return R.f_rst()
    if sym == "rstack_sw":
        return R.f_rstack(0x0B)
    if sym == "rstack_po":
        return R.f_rstack(0x02)
    return R.f_error(0x51)


def classify(up_r, wr_r, model):
    if up_r != model.up:
        ru = [e for e in up_r if e[0] == "up"]
        mu = [e for e in model.up if e[0] == "up"]
        if ru != mu:
            return "C04.iff", f"payloads handed up differ: real {ru[-4:]} model {mu[-4:]}"
        return "C04.rstack", f"reset notifications differ: real {[e for e in up_r if e[0]=='reset'][-4:]} model {[e for e in model.up if e[0]=='reset'][-4:]}"
    if wr_r != model.wr:
        return "C04.answer", f"answers differ: real {wr_r[-4:]} model {model.wr[-4:]}"
    return None


def run_chunks(rx, chunks, rst_before=()):
    """Feed chunks; compare with the model after every read.  rst_before: indices of reads before which the HOST writes an RST
    (a reset request of its own that the peer has not answered - or whose answer is one of the frames of the sequence): what the peer
    sends meanwhile is received like at any other time."""
    host = e2.SyncHost(rx)
    model = R.HostReceiverModel(rx)
    for i, c in enumerate(chunks):
        if i in rst_before:
            host.proto.send_reset()
        if not host.feed(c):
            return ("C04.answer", f"data_received raised {host.raised!r}"), model
        model.feed(c)
        up_r, wr_r = e2.split_streams(host.ev)
        if rst_before:
            wr_r = [e for e in wr_r if e != ("rst",)]
        r = classify(up_r, wr_r, model)
        if r is not None:
            return (r[0], r[1] + f" (after read {i}: {c.hex()[:60]})"), model
    return None, model


def run_seq(params, tape):
    rx0, L, first = params["rx"], params["L"], params["first"]
    viol = []
    sigs = set()
    evals = 0
    probes = {}
    lengths = range(1, L + 1)
    for n in lengths:
        pools = [SYMS] * n
        if first is not None:
            pools = [(SYMS[first],)] + [SYMS] * (n - 1)
        for seq in itertools.product(*pools):
            # the symbol is relative to the expected number at that moment (tracked by a throw-away model)
            track = R.HostReceiverModel(rx0)
            chunks = []
            for k, sym in enumerate(seq):
                w = R.wire(sym_frame(sym, track.rx, k))
                track.feed(w)
                chunks.append(w)
            err, model = run_chunks(rx0, chunks)
            if err is None and n <= 3:
                # the same with a host reset request outstanding from the start (RST written, nothing else changes on the receive side)
                err, model = run_chunks(rx0, chunks, rst_before=(0,))
                if err is not None:
                    err = (err[0], err[1] + " [host RST written before the sequence]")
                probes["host_rst_outstanding"] = probes.get("host_rst_outstanding", 0) + 1
            evals += 1
            if err is not None:
                viol.append((err[0], "seq", f"state {rx0} sequence {seq}: {err[1]}"))
                if len(viol) > 10:
                    break
            if any(s[0] == "d" or s.startswith("rstack") or s == "error" for s in seq):
                sigs.add(hashlib.blake2b(repr((rx0, seq)).encode(), digest_size=8).digest())
            if n == L:
                for s in seq:
                    probes_key = {"d0": "accepted", "d0r": "accepted", "dpr": "dup_retx", "dnr": "dup_retx", "dp": "out_of_seq", "dn": "out_of_seq",
                                  "rstack_sw": "rstack", "rstack_po": "rstack", "error": "error"}.get(s)
                    if probes_key:
                        probes[probes_key] = probes.get(probes_key, 0) + 1
        if len(viol) > 10:
            break
    return {"viol": viol[:10], "evals": evals, "sigs": sigs, "probes": probes, "vt": 0.0, "iters": 0,
            "sample": {"scenario": "seq", "start_state": rx0, "L": L, "sequences": evals, "example": list(SYMS[:3])}}


def run_long(params, tape):
    viol = []
    sigs = set()
    probes = {}
    sample = None
    for _ in range(params.get("n", 10)):
        rng = tape.sub("long")
        rx0 = rng.randrange(8)
        track = R.HostReceiverModel(rx0)
        frames = []
        desc = []
        nfr = rng.choice((3, 10, 40, 120, 400))
        accepted = 0
        for k in range(nfr):
            t = rng.random()
            if t < 0.75:
                rel = rng.choice((0, 0, 0, 0, -1, -1, 1, rng.randrange(8)))
                frm = (track.rx + rel) % 8
                retx = rng.randrange(2)
                pl = bytes(rng.choice((0x7E, 0x7D, 0x11, 0x13, 0x18, 0x1A, rng.randrange(256))) for _ in range(rng.randrange(1, 30)))
                f = R.f_data(frm, retx, rng.randrange(8), pl)
                desc.append(("data", frm, retx))
                if frm == track.rx:
                    accepted += 1
            elif t < 0.82:
                f = R.f_ack(rng.randrange(8), rng.randrange(2), rng.randrange(2))
                desc.append(("ack",))
            elif t < 0.89:
                f = R.f_nak(rng.randrange(8), rng.randrange(2), rng.randrange(2))
                desc.append(("nak",))
            elif t < 0.92:
                f = R.f_rst()
                desc.append(("rst",))
            elif t < 0.96:
                code = rng.choice((0x0B, 0x02, 0x00, 0x51, rng.randrange(256)))
                f = R.f_rstack(code)
                desc.append(("rstack", code))
                probes["rstack"] = probes.get("rstack", 0) + 1
            else:
                code = rng.choice((0x51, 0x02, rng.randrange(256)))
                f = R.f_error(code)
                desc.append(("error", code))
                probes["error"] = probes.get("error", 0) + 1
            w = R.wire(f)
            track.feed(w)
            frames.append(w)
        if accepted > 8:
            probes["wrap"] = probes.get("wrap", 0) + 1
        # chunking: join frames, cut at random points (several frames per read, or a frame over several reads)
        stream = b"".join(frames)
        mode = rng.randrange(4)
        if mode == 0:
            chunks = frames
        elif mode == 1:
            chunks = []
            i = 0
            while i < len(frames):
                j = i + rng.randrange(1, 5)
                chunks.append(b"".join(frames[i:j]))
                i = j
            probes["multi_frame_read"] = probes.get("multi_frame_read", 0) + 1
        else:
            ncut = rng.randrange(1, max(2, len(stream) // 6))
            cuts = sorted({rng.randrange(1, len(stream)) for _ in range(ncut)})
            chunks = [stream[a:b] for a, b in zip([0] + cuts, cuts + [len(stream)])]
            probes["split_frame_read"] = probes.get("split_frame_read", 0) + 1
        chunks = [c for c in chunks if len(c) <= 1000]
        if sum(len(c) for c in chunks) != len(stream):
            chunks = frames
        rst_before = ()
        if mode == 0 and rng.randrange(2):
            rst_before = tuple(sorted({rng.randrange(len(chunks)) for _ in range(rng.randrange(1, 4))}))
            probes["host_rst_outstanding"] = probes.get("host_rst_outstanding", 0) + 1
        err, model = run_chunks(rx0, chunks, rst_before)
        if err is not None:
            viol.append((err[0], "long", f"start state {rx0}, {nfr} frames {desc[:12]}...{' host RST before reads ' + str(rst_before) if rst_before else ''}: {err[1]}"))
        probes["accepted"] = probes.get("accepted", 0) + accepted
        sigs.add(hashlib.blake2b(stream[:4000], digest_size=8).digest())
        if sample is None:
            sample = {"scenario": "long", "start_state": rx0, "frames": nfr, "reads": len(chunks), "head": [list(d) for d in desc[:12]],
                      "handed_up": len([e for e in model.up if e[0] == "up"])}
    return {"viol": viol[:10], "evals": params.get("n", 10), "sigs": sigs, "probes": probes, "vt": 0.0, "iters": 0, "sample": sample}


def run(scenario, params, tape, detail=False):
    if scenario == "link":
        # the same receive oracle on a live link (engine E1): host DATA frames in flight, reference NCP with windows 1..3,
        # line faults, several frames per read
        from .. import e1

        return e1.run(params, tape, detail=detail)
    res = run_seq(params, tape) if scenario == "seq" else run_long(params, tape)
    res["digest"] = hashlib.sha256(repr((sorted(res["sigs"]), res["viol"])).encode()).hexdigest()[:16]
    if detail:
        res["trace"] = [str(v) for v in res["viol"]]
    return res
