"""C03 - frames on the wire follow the specified layout bit for bit (engines E1 + E2, wire monitor)."""
import asyncio
import hashlib
import itertools

from .. import e1, e2
from .. import refash as R

ID = "C03"
LEVEL = "exploration"
ENGINE = "E2 ashpeer"
TECHNIQUE = "deterministic simulation with an online wire monitor built on an independently written ASH codec; bit-flip line fault enumerated for short frames"
LEVEL_TEXT = ("every frame the real protocol writes in the dedicated scenarios (all payload lengths 0..200, every ackNum, NAK, RST) and in faulty-link "
              "E1 runs is re-parsed and re-encoded by an independent codec; every control byte, reset code and field value is parsed against the "
              "reference; all 1-bit and (thorough) all 2-bit corruptions of short frames are injected while a send is pending. Payload contents and "
              "field-value products are sampled, not enumerated")
COMPONENTS = e2.COMPONENTS
RULE = ("tx: host sends payloads of each length (0..200, incl. all-reserved-byte payloads) and answers peer DATA frames/garbage, every written byte "
        "string checked by the monitor; rx: frames from the independent encoder for all 256 control bytes x body shapes, all 256 RSTACK/ERROR codes, "
        "all DATA field values, payload lengths 0..200, compared with the reference receiver; flip: each base frame x every 1-bit and enumerated/sampled "
        "2-bit corruption before stuffing, delivered while a send is pending; link: faulty-link E1 runs with the monitor on. "
        "Distinct = distinct (scenario, frame, corruption / length) cases; all are non-trivial.")
ASSUMPTIONS = [
    "the independent codec in dst/refash.py (bitwise CRC-CCITT, LFSR 0x42/0xB8, stuffing) transcribes UG101 correctly",
    "nRdy in host ACK/NAK frames is not constrained; RSTACK/ERROR to_bytes() is out of scope (the host never writes them)",
    "a DATA frame with an empty data field and ACK/NAK frames with a data field are don't-cares",
]
PROBES = ["uart_connect_flow_None", "uart_connect_flow_software", "uart_connect_flow_hardware", "tx_data", "tx_ack", "tx_nak", "tx_rst", "tx_len_0", "tx_len_200", "tx_all_reserved", "rx_control_bytes", "rx_rstack_codes",
          "rx_error_codes", "flip_1bit", "flip_2bit", "flip_crc_hi", "flip_crc_lo"]


def plan(tier):
    sweeps = []
    lens = list(range(0, 201))
    step = 8 if tier == "quick" else 40
    for i in range(0, 201, step):
        sweeps.append(("tx", {"lens": lens[i:i + step]}))
    # the same through the real connection factory (bellows.uart.connect) for every flow-control setting of the device configuration
    for flow in (None, "software", "hardware"):
        sweeps.append(("uart", {"flow": flow}))
    sweeps.append(("rx_control", {}))
    sweeps.append(("rx_codes", {}))
    for i in range(0, 201, 50):
        sweeps.append(("rx_payload", {"lens": lens[i:i + 50]}))
    for base in ("ack", "nak", "data", "data_retx", "rstack", "error", "rst", "data_long"):
        if tier == "thorough" or base in ("data_long",):
            parts = 4 if base != "data_long" else 1
        else:
            parts = 1
        for part in range(parts):
            sweeps.append(("flip", {"base": base, "two": "all" if (tier == "thorough" and base != "data_long") else "sample", "part": part, "parts": parts}, None))
    return {
        "sweeps": sweeps,
        "exhaustive": "all 256 control bytes x 3 body shapes; all 256 RSTACK and ERROR codes; all frmNum x reTx x ackNum; payload lengths 0..200; every 1-bit corruption of the 8 base frames" + (" and every 2-bit corruption of the 7 short ones" if tier == "thorough" else ""),
        "random": [("link", {}, 1)],
        "runs": 1500 if tier == "quick" else None,
        "budget_s": 45 if tier == "quick" else 600,
        "batch": 50,
    }


# ------------------------------------------------------------------------- tx
def payload_for(n, mode):
    if mode == 0:
        return bytes((i * 37 + n) & 0xFF for i in range(n))
    if mode == 1:
        return bytes(R.RESERVED[(i + n) % 6] for i in range(n))
    if mode == 2:
        return bytes([0xFF] * n)
    if mode == 3:
        return bytes(R._RND[i] for i in range(n))  # randomised form becomes all-zero
    if mode == 4:
        return bytes(R._RND[i] ^ R.RESERVED[(i + n) % 6] for i in range(n))  # randomised form is all reserved bytes: every byte is stuffed on the wire (twice the length)
    return bytes(R._RND[i] ^ (0x7D if i % 2 else 0x7E) for i in range(n))  # randomised form alternates FLAG / ESCAPE


def run_tx(params, tape, detail=False):
    rig = e2.ScriptRig(tape, sched=False)
    loop, mon, proto = rig.loop, rig.mon, rig.proto
    viol = []
    probes = {}
    sent = []
    peer_frm = [0]
    submitted = []

    def on_data(fr):
        _, frm, retx, ack, payload = fr
        sent.append(payload)
        # acknowledge with a piggy-backed DATA frame every third time so the host writes ACKs with every ackNum
        if len(sent) % 3 == 0:
            rig.peer_send(R.f_data(peer_frm[0], 0, (frm + 1) % 8, b"cb" + bytes([peer_frm[0]])), delay=0.001)
            peer_frm[0] = (peer_frm[0] + 1) % 8
        elif len(sent) % 7 == 0:
            # garbage first: the host must answer with a NAK
            rig.peer_send_bytes(b"\x42\x42\x42\x7e", delay=0.0005)
            rig.peer_send(R.f_ack((frm + 1) % 8), delay=0.001)
        else:
            rig.peer_send(R.f_ack((frm + 1) % 8), delay=0.001)

    rig.on_data = on_data

    async def main():
        for n in params["lens"]:
            for mode in range(6):
                p = bytes([n & 0xFF, mode]) + payload_for(n, mode) if n >= 2 else payload_for(n, mode)
                p = p[:n] if n < 2 else p[:max(n, 2)]
                if n >= 2:
                    p = bytes([n & 0xFF, mode]) + payload_for(n - 2, mode)
                rig.payloads.add(p)
                submitted.append(p)
                await proto.send_data(p)
        proto.send_reset()
        await asyncio.sleep(0.1)

    outcome, val = rig.run(main())
    viol.extend(mon.viol)
    if outcome != "done":
        viol.append(("C03.tx", "sim-" + outcome, f"tx scenario ended with {outcome}: {val!r}"))
    if sent != submitted and outcome == "done":
        viol.append(("C03.tx", "payload-roundtrip", f"payloads decoded from the wire differ from those submitted (first difference at index {next((i for i,(a,b) in enumerate(zip(sent, submitted)) if a!=b), min(len(sent), len(submitted)))})"))
    kinds = {}
    for _t, fr in mon.tx_frames:
        kinds[fr[0]] = kinds.get(fr[0], 0) + 1
    for k, v in kinds.items():
        probes["tx_" + k] = v
    acknums = {fr[1] for _t, fr in mon.tx_frames if fr[0] == "ack"}
    if 0 in params["lens"]:
        probes["tx_len_0"] = 1
    if 200 in params["lens"]:
        probes["tx_len_200"] = 1
    probes["tx_all_reserved"] = len(params["lens"])
    if mon.first_write is None:
        viol.append(("C03.tx", "nothing-written", "the host wrote nothing"))
    last = mon.tx_frames[-1][1] if mon.tx_frames else None
    if last is not None and last[0] != "rst":
        viol.append(("C03.tx", "rst", f"send_reset() did not write an RST frame (last frame {last[0]})"))
    sigs = {hashlib.blake2b(p, digest_size=8).digest() for p in submitted}
    return {"viol": viol[:10], "evals": len(submitted), "sigs": sigs, "probes": probes, "vt": loop.time(), "iters": loop.iters,
            "sample": {"scenario": "tx", "lengths": [params["lens"][0], params["lens"][-1]], "frames_written": kinds, "ack_numbers_written": sorted(acknums)},
            "log": rig.log if detail else None}


# ------------------------------------------------------------------------- rx
def _diff(raw_wo_crc, rx, viol, tag):
    data = R.wire(raw_wo_crc)
    err, model, host = e2.diff_stream(data, [], rx=rx)
    if err is not None:
        viol.append(("C03.rx", tag, f"frame {raw_wo_crc.hex()} (host expecting {rx}): {err[1]}"))
    return model


def run_rx_control(params, tape):
    viol = []
    sigs = set()
    n = 0
    for c in range(256):
        for body in (b"", bytes([0x02, 0x0B]), bytes([0x02, 0x51, 0x00]), b"\x11\x7e\x7d\x13\x18"):
            if (c < 0x80 and not body) or (0x80 <= c < 0xC0 and body):
                continue  # don't-cares: DATA with an empty data field, ACK/NAK with a data field
            for rx in (0, (c >> 4) & 7):
                _diff(bytes([c]) + body, rx, viol, "control")
                n += 1
            sigs.add(bytes([c, len(body)]))
    return {"viol": viol[:10], "evals": n, "sigs": sigs, "probes": {"rx_control_bytes": 256}, "vt": 0.0, "iters": 0,
            "sample": {"scenario": "rx_control", "control_bytes": 256, "body_shapes": 4}}


def run_rx_codes(params, tape):
    viol = []
    sigs = set()
    n = 0
    for code in range(256):
        for mk, tag in ((R.f_rstack, "rstack"), (R.f_error, "error")):
            for ver in (2, 1, 3):
                _diff(mk(code, ver), 3, viol, tag)
                n += 1
            sigs.add(tag.encode() + bytes([code]))
    for frm, retx, ack in itertools.product(range(8), range(2), range(8)):
        for rx in range(8):
            _diff(R.f_data(frm, retx, ack, b"\x01\x7e\x02"), rx, viol, "data-fields")
            n += 1
        sigs.add(bytes([frm, retx, ack]))
    for ack, nrdy, res in itertools.product(range(8), range(2), range(2)):
        _diff(R.f_ack(ack, nrdy, res), 1, viol, "ack-fields")
        _diff(R.f_nak(ack, nrdy, res), 1, viol, "nak-fields")
        n += 2
    return {"viol": viol[:10], "evals": n, "sigs": sigs, "probes": {"rx_rstack_codes": 256, "rx_error_codes": 256}, "vt": 0.0, "iters": 0,
            "sample": {"scenario": "rx_codes", "codes": 256, "data_field_combinations": 128}}


def run_rx_payload(params, tape):
    viol = []
    sigs = set()
    n = 0
    for ln in params["lens"]:
        for mode in range(6):
            p = payload_for(ln, mode)
            if not p:
                continue  # empty data field: don't-care
            for frm in (0, 5):
                _diff(R.f_data(frm, 0, 2, p), frm, viol, "payload")
                n += 1
            sigs.add(hashlib.blake2b(p, digest_size=8).digest())
    return {"viol": viol[:10], "evals": n, "sigs": sigs, "probes": {}, "vt": 0.0, "iters": 0,
            "sample": {"scenario": "rx_payload", "lengths": [params["lens"][0], params["lens"][-1]]}}


# ----------------------------------------------------------------------- flip
BASES = {
    "ack": lambda: R.f_ack(1),
    "nak": lambda: R.f_nak(1),
    "data": lambda: R.f_data(0, 0, 1, b"\x7e\x11\x00\x42"),
    "data_retx": lambda: R.f_data(7, 1, 1, b"\x01\x02\x03"),
    "rstack": lambda: R.f_rstack(0x0B),
    "error": lambda: R.f_error(0x51),
    "rst": lambda: R.f_rst(),
    "data_long": lambda: R.f_data(0, 0, 1, bytes(range(60))),
}


def run_flip(params, tape, detail=False):
    base = BASES[params["base"]]()
    raw = R.with_crc(base)
    nbits = len(raw) * 8
    rng = tape.sub("flip")
    cases = [(b,) for b in range(nbits)]
    if params["two"] == "all":
        cases += list(itertools.combinations(range(nbits), 2))
    else:
        pairs = set()
        while len(pairs) < min(400, nbits * (nbits - 1) // 2):
            a, b = rng.randrange(nbits), rng.randrange(nbits)
            if a != b:
                pairs.add((min(a, b), max(a, b)))
        # always include pairs inside the CRC and CRC x control
        for a in range(nbits - 16, nbits):
            pairs.add((0, a))
            pairs.add((min(a, nbits - 1), nbits - 1)) if a != nbits - 1 else None
        cases += sorted(pairs)
    parts, part = params.get("parts", 1), params.get("part", 0)
    cases = cases[part::parts]
    rig = e2.ScriptRig(tape, sched=False, max_iters=400_000)
    loop, mon, proto = rig.loop, rig.mon, rig.proto
    viol = []
    probes = {"flip_1bit": 0, "flip_2bit": 0, "flip_crc_hi": 0, "flip_crc_lo": 0}
    state = {"done": False}
    p0 = b"pending-send"
    rig.payloads.add(p0)

    async def sender():
        try:
            await proto.send_data(p0)
        finally:
            state["done"] = True

    async def main():
        t = loop.create_task(sender())
        await asyncio.sleep(0.001)
        per = 1.0 / (len(cases) + 1)
        for i, flips in enumerate(cases):
            before = (len(rig.upper.rx), len(rig.upper.notes), len(mon.data_tx), state["done"], len(mon.tx_frames))
            rig.transport.feed(R.wire_raw(R.flip_bits(raw, flips)))
            await asyncio.sleep(per)
            after = (len(rig.upper.rx), len(rig.upper.notes), len(mon.data_tx), state["done"], len(mon.tx_frames))
            if after[:4] != before[:4]:
                what = []
                if after[0] != before[0]:
                    what.append("payload handed up")
                if after[1] != before[1]:
                    what.append("reset notification")
                if after[2] != before[2] or after[3] != before[3]:
                    what.append("pending send completed or repeated")
                viol.append(("C03.flip", params["base"], f"{params['base']} frame {raw.hex()} with bits {flips} flipped was not rejected: {', '.join(what)}"))
                break
            new = [fr for _t, fr in mon.tx_frames[before[4]:]]
            if any(fr[0] != "nak" for fr in new) or len(new) > 1:
                viol.append(("C03.flip", params["base"] + "-answer", f"corrupted {params['base']} frame (bits {flips}) answered by {new}"))
                break
            probes["flip_1bit" if len(flips) == 1 else "flip_2bit"] += 1
            for b in flips:
                if b >= nbits - 16:
                    probes["flip_crc_hi" if b < nbits - 8 else "flip_crc_lo"] += 1
        # the intact frame is still accepted afterwards (the oracle itself is alive)
        rig.transport.feed(R.wire_raw(raw))
        await asyncio.sleep(0.001)
        t.cancel()

    outcome, val = rig.run(main())
    viol.extend(v for v in mon.viol if v[0].startswith("C03"))
    if outcome != "done":
        viol.append(("C03.flip", "sim-" + outcome, f"flip scenario ended with {outcome}: {val!r}"))
    sigs = {hashlib.blake2b(repr((params["base"], c)).encode(), digest_size=8).digest() for c in cases}
    return {"viol": viol[:5], "evals": len(cases), "sigs": sigs, "probes": probes, "vt": loop.time(), "iters": loop.iters,
            "faults": {"n2h.corrupt": len(cases)},
            "sample": {"scenario": "flip", "base": params["base"], "frame": raw.hex(), "corruptions": len(cases), "first": [list(c) for c in cases[:5]]}}


def run_uart(params, tape, detail=False):
    """Frames written by a stack that was connected through bellows.uart.connect (Gateway + AshProtocol built by the library itself) with the
    given flow-control setting: every write goes through the wire monitor (layout, stuffing, CRC, no reserved byte other than ESCAPE)."""
    import asyncio

    from .. import e3

    rig = e3.StackRig(tape, version=8, sched=False, fast_line=True, chunking=False, flow_control=params["flow"], max_iters=2_000_000)
    n = [0]

    async def main():
        ez = await rig.bringup()
        for i in range(220):
            data = bytes(((i * 29 + j * 7) ^ (j << 3)) & 0xFF for j in range(1 + i % 48))
            r = await ez.echo(data=data)
            n[0] += 1
            if bytes(r[0]) != data:
                rig.mon._v("C03.tx", "echo", f"echo of {data.hex()} came back as {bytes(r[0]).hex()}")
        await asyncio.sleep(0.1)

    outcome, val = rig.run(main())
    viol = [v for v in rig.mon.viol if v[0].startswith("C03.")]
    if outcome != "done":
        viol.append(("C03.tx", "sim-" + outcome, f"flow_control={params['flow']!r}: ended with {outcome}: {val!r}"))
    sigs = {hashlib.blake2b(d, digest_size=8).digest() for (_t, _f, d) in rig.host_writes}
    wire = b"".join(d for (_t, _f, d) in rig.host_writes)
    probes = {"uart_connect_flow_" + str(params["flow"]): 1, "tx_data": n[0]}
    return {"viol": viol[:10], "evals": max(1, len(rig.host_writes)), "sigs": sigs, "probes": probes, "vt": rig.loop.time(), "iters": rig.loop.iters,
            "digest": hashlib.sha256(wire).hexdigest()[:16],
            "sample": {"scenario": "uart", "flow_control": params["flow"], "frames_written": len(rig.host_writes), "escape_bytes_on_wire": wire.count(b"\x7d")}}


def run(scenario, params, tape, detail=False):
    if scenario == "tx":
        res = run_tx(params, tape, detail)
    elif scenario == "rx_control":
        res = run_rx_control(params, tape)
    elif scenario == "rx_codes":
        res = run_rx_codes(params, tape)
    elif scenario == "rx_payload":
        res = run_rx_payload(params, tape)
    elif scenario == "flip":
        res = run_flip(params, tape, detail)
    elif scenario == "uart":
        return run_uart(params, tape, detail)
    elif scenario == "link":
        res = e1.run(params, tape, detail=detail)
        res["viol"] = [v for v in res["viol"]]
        return res
    else:
        raise ValueError(scenario)
    res["digest"] = hashlib.sha256(repr((sorted(res["sigs"]), res["viol"])).encode()).hexdigest()[:16]
    if detail:
        res["trace"] = [str(v) for v in res["viol"]] + [repr(e) for e in (res.get("log") or [])[:200]]
    res.pop("log", None)
    return res
