"""C19 - the watchdog requests a restart only after the tolerated run of consecutive failures (engine E3 with the application)."""
import asyncio
import hashlib
import itertools

import bellows.zigbee.application as appmod

from .. import e3app
from .. import refezsp as Z

ID = "C19"
LEVEL = "fault_enumeration"
ENGINE = "E3 stack"
TECHNIQUE = ("deterministic simulation with fault enumeration: the real ControllerApplication (started through connect()/start_network()) feeds its watchdog "
             "against the reference NCP, which answers each keep-alive {normally, never -> real 10 s command timeout in virtual time, invalidCommand}; every "
             "outcome sequence up to a length bound is enumerated, long seeded sequences cross the read-and-clear period, and zigpy's real watchdog loop is run in virtual time"
             ' The whole-stack soak (dst/soak.py: one ControllerApplication object through several connect/traffic/failure/reconnect epochs) is a further seeded scenario of this check.')
LEVEL_TEXT = ("all 3^k keep-alive outcome sequences (success / no reply / invalidCommand) up to length k (9 in thorough, 7 in quick) on a v4 and a v8 NCP are fed "
              "to watchdog_feed() and compared feed by feed with a reference counter; seeded sequences of length 400 cross the 180-feed read-and-clear "
              "boundary twice, with failures also on the feed's second command; the real _watchdog_loop is driven through outcome scripts in virtual time")
COMPONENTS = e3app.COMPONENTS
RULE = ("sweep: (version, outcome sequence) chained in one application with a success feed between sequences; random: long sequences and runs of the real watchdog loop. "
        "Non-trivial = the sequence contains a failure; distinct = distinct (version, mode, sequence).")
ASSUMPTIONS = [
    "a feed counts as failed when any of its commands fails (keep-alive or free-buffer read); further commands of a feed are not constrained",
    "sequences are chained in one application instance separated by a successful feed (which clears the count); the reference counter runs along",
    "command payload schemas inside the NCP model are bellows' own tables",
]
PROBES = ["sibling_application_constructed", "counters.zero", "counters.sat", "counters.mixed", "feed.V", "feed.S", "feed.T", "feed.E", "feed.T2", "feed.E2", "raised", "raised_again_on_6th", "read_and_clear_used", "loop_connection_lost", "loop_survived_4_failures",
          "v4_nop", "success_after_4_failures", "noise.incoming_message", "noise.command_ok", "noise.join", "noise.stack_status", "noise.route_error"]

from ..ncpmodel import St as St_  # noqa: E402

MAXF = 4
PERIOD = 180
ALPHA = "STEV"  # success / no reply / invalidCommand / success with the free-buffer read answered by an error status
KEEPALIVE = ("nop", "readCounters", "readAndClearCounters")


def plan(tier):
    k = 6 if tier == "quick" else 8
    sweeps = []
    for V in (4, 8):
        for pre in itertools.product(ALPHA, repeat=2):
            sweeps.append(("enum", {"V": V, "prefix": "".join(pre), "k": k, "sched": False}))
    for V in (4, 8):
        for pre in itertools.product("STX", repeat=2):
            if "X" in pre:
                sweeps.append(("enum", {"V": V, "prefix": "".join(pre), "k": k, "alpha": "STX", "sched": False}))
    # the same with other NCP / host activity between the feeds (incoming messages, joins, unsolicited confirmations, an ordinary command that
    # succeeds): none of it is a keep-alive outcome, the count must not move
    for V in (4, 8, 14):
        for pre in itertools.product("TE", repeat=2):
            sweeps.append(("enum", {"V": V, "prefix": "".join(pre), "k": k, "alpha": "STE", "noise": True, "sched": False}))
    # a second application object is constructed in the process in the middle of the sequence
    for V in (4, 8):
        for pre in itertools.product("TE", repeat=2):
            sweeps.append(("enum", {"V": V, "prefix": "".join(pre), "k": k, "alpha": "STE", "sibling": True, "sched": False}))
    # the counters the keep-alive reads are saturated (0xFFFF) or large: their VALUES steer nothing
    for V in (8, 14):
        for pre in itertools.product("ST", repeat=2):
            sweeps.append(("enum", {"V": V, "prefix": "".join(pre), "k": k, "alpha": "STE", "counters": "sat", "sched": False}))
        sweeps.append(("loop", {"V": V, "script": "SSTTTTSTTTTT", "counters": "sat", "sched": False}))
    kb = 5 if tier == "quick" else 7
    for seq in itertools.product("STEV", repeat=kb):
        if seq[0] != "S":  # sequences starting with S are covered by a shorter one shifted by a feed
            sweeps.append(("boundary", {"V": 8, "seq": "".join(seq), "sched": False}))
    for V in (4, 5, 8, 13, 14):
        sweeps.append(("loop", {"V": V, "script": "SSTTTTSTTTTT", "sched": False}))
        sweeps.append(("loop", {"V": V, "script": "TETET", "sched": False}))
        sweeps.append(("loop", {"V": V, "script": "TTTTSTTTTSEEEEE", "sched": False}))
        sweeps.append(("loop", {"V": V, "script": "TTTTVTTTTVEEEEE", "sched": False}))
    return {
        "sweeps": sweeps,
        "exhaustive": f"all outcome sequences over {{success, no reply, invalidCommand, success with free-buffer read refused}} of length <= {k} for a v4 and a v8 NCP through watchdog_feed(); scripted runs of the real watchdog loop on v4/5/8/13/14",
        "random": [("long", {}, 1), ("noisy", {}, 1), ("loop", {}, 1), ("soak", {}, 2)],
        "runs": 240 if tier == "quick" else None,
        "budget_s": 60 if tier == "quick" else 900,
        "batch": 4,
        "sweep_batch": 1,
    }


def run(scenario, params, tape, detail=False):
    if scenario == "soak":
        # the whole-stack soak (dst/soak.py): one application object through several connection epochs with traffic, failures and
        # reconnects; this check reports the clauses of its own property from it
        from .. import soak

        return soak.run(params, tape, detail=detail)
    V = params["V"] if "V" in params else (4, 5, 7, 8, 9, 12, 13, 14)[tape.draw(8, "V")]
    rig = e3app.AppRig(tape, version=V, sched=params.get("sched", True))
    loop, ncp = rig.loop, rig.ncp
    ncp.preform()
    cmode = params["counters"] if "counters" in params else (("zero", "sat", "mixed")[tape.draw(3, "counters")] if scenario in ("long", "noisy", "loop") and "script" not in params else "zero")
    if cmode == "sat":
        ncp.counters_boot = ncp.counters = [0xFFFF if i % 3 == 0 else 0xFFFE for i in range(len(ncp.counters))]
    elif cmode == "mixed":
        ncp.counters_boot = ncp.counters = [(0, 1, 0xFFFF, 0x8000, 255)[(i * 7 + V) % 5] for i in range(len(ncp.counters))]
    viol, probes = [], {"counters." + cmode: 1}
    sigs = set()
    nseq = [0]
    samples = []

    def probe(n, k=1):
        probes[n] = probes.get(n, 0) + k

    cur = {"outcome": "S", "first": None, "cmds": []}

    def deliver(req, payload):
        o = cur["outcome"]
        is_keep = req.name in KEEPALIVE
        is_second = req.name == "getValue"
        if is_keep or is_second:
            cur["cmds"].append(req.name)
        hit = (is_keep and o in ("T", "E")) or (is_second and o in ("T2", "E2"))
        if hit and o[0] == "T":
            return
        if hit and o[0] == "E":
            payload = Z.header(ncp.V, req.seq, Z.ID_INVALID_COMMAND) + ncp.invalid_body(0x31)
        if o == "V" and is_second:
            # the firmware does not expose the free-buffer count: a legal answer, the feed still succeeds
            from ..ncpmodel import St
            payload = ncp.encode_rsp(req, (St("INVALID_ID"), b""))
        req.nrsp += 1
        ncp.emit(payload, 0.0, "rsp", req.seq)

    ncp.deliver = deliver
    # reference
    ref = {"fails": 0, "count": 0}

    def ref_feed(outcome):
        """returns (expected keep-alive command, expect_raise)"""
        if V == 4:
            cmd = "nop"
        else:
            ref["count"] += 1
            cmd = "readAndClearCounters" if ref["count"] % PERIOD == 0 else "readCounters"
        if outcome in ("S", "V") or (V == 4 and outcome in ("T2", "E2")):  # ("X": EZSP stopped -> EzspError -> a failure, below)
            ref["fails"] = 0
            return cmd, False
        ref["fails"] += 1
        return cmd, ref["fails"] > MAXF

    nfeeds = [0]

    async def feed(app, outcome, label):
        nfeeds[0] += 1
        if params.get("sibling") and nfeeds[0] in (3, 5):
            # another ControllerApplication object comes to life in the same process (a second radio being set up): this one's streak and
            # feed counter are its own
            import zigpy.config as zc

            probe("sibling_application_constructed")
            appmod.ControllerApplication({zc.CONF_DEVICE: {zc.CONF_DEVICE_PATH: "/dev/ttySIBLING"}, "use_thread": False})
        cur["outcome"] = outcome
        cur["cmds"] = []
        probe("feed." + outcome)
        cmd, expect_raise = ref_feed(outcome)
        raised = None
        if outcome == "X":
            # the EZSP layer was stopped and not restarted (what stop_ezsp() leaves behind when an NCP reset never completes):
            # every command raises EzspError('EZSP is not running') - a keep-alive failure like any other
            app._ezsp.stop_ezsp()
        try:
            await app.watchdog_feed()
        except Exception as e:
            raised = e
        if outcome == "X":
            app._ezsp.start_ezsp()
        if (raised is not None) != expect_raise:
            key = "raised-early" if raised is not None else "not-raised"
            viol.append(("C19.exact", key, f"v{V} {label}: feed with outcome {outcome} after {ref['fails'] - (0 if outcome == 'S' else 1)} consecutive failure(s) "
                         f"{'raised ' + repr(raised) if raised is not None else 'did not raise'} (reference: {'raise' if expect_raise else 'no raise'}; tolerated maximum {MAXF})"))
        if raised is not None:
            probe("raised")
            if ref["fails"] > MAXF + 1:
                probe("raised_again_on_6th")
        if outcome == "S" and ref["fails"] == 0 and raised is None:
            pass
        first = cur["cmds"][0] if cur["cmds"] else None
        if outcome == "X":
            # which commands still reach the NCP while the EZSP layer is stopped is not C19's subject (on v5+ the counter read goes through the
            # protocol handler and bypasses the running gate; the feed then fails on the free-buffer read) - counted as a probe only
            if cur["cmds"]:
                probe("keepalive_sent_while_stopped")
        elif first != cmd:
            viol.append(("C19.cmd", "keepalive", f"v{V} {label}: feed #{ref['count'] if V != 4 else '?'} used {first} as keep-alive, expected {cmd}"))
        if cmd == "readAndClearCounters":
            probe("read_and_clear_used")
        if cmd == "nop":
            probe("v4_nop")
        if noise[0] is not None:
            await between_feeds(app)
        return raised

    noise = [None]

    async def between_feeds(app):
        """Activity that is not a keep-alive: must leave the failure count alone."""
        from .c13 import enc_aps, enc_incoming, enc_tcjoin

        noise[0] += 1
        what = noise[0] % 5
        seq = ncp.last_rsp_seq
        if what == 0:
            probe("noise.incoming_message")
            ncp.emit(enc_incoming(ncp.V, seq, (0, 2, 4)[noise[0] % 3], enc_aps(0x0104, 6, 1, 1, 0x0140, 0x1234, noise[0] & 0xFF), 200, -40, 0x4321, 0xFF, 0xFF, b"\x01\x02"), 0.0, "cb")
        elif what == 1:
            probe("noise.command_ok")
            old = cur["outcome"]
            cur["outcome"] = "S"
            await app._ezsp.getNodeId()
            cur["outcome"] = old
        elif what == 2:
            probe("noise.join")
            ncp.emit(enc_tcjoin(ncp.V, seq, 0x2345, bytes([9, 8, 7, 6, 5, 4, 3, noise[0] & 0xFF]), 1, 0, 0x0000), 0.0, "cb")
        elif what == 3:
            probe("noise.stack_status")
            ncp.callback("stackStatusHandler", (St_("NETWORK_UP"),))
        else:
            probe("noise.route_error")
            ncp.callback("incomingRouteErrorHandler", (St_("DELIVERY_FAILED"), 0x3456))
        await asyncio.sleep(0.05)

    async def main():
        app = await rig.start_app()
        # zigpy's start-up path has already fed the watchdog? (only in zigpy's own startup(), which is not used here)
        ref["fails"] = app._watchdog_failures
        ref["count"] = app._watchdog_feed_counter
        if params.get("noise") or scenario == "noisy":
            noise[0] = 0
        if scenario == "enum":
            k, prefix = params["k"], params["prefix"]
            for n in range(len(prefix), k + 1):
                for rest in itertools.product(params.get("alpha", ALPHA), repeat=n - len(prefix)):
                    seq = prefix + "".join(rest)
                    nseq[0] += 1
                    before4 = False
                    for i, o in enumerate(seq):
                        if o == "S" and ref["fails"] == MAXF:
                            probe("success_after_4_failures")
                        await feed(app, o, f"seq={seq} step {i}")
                    await feed(app, "S", f"seq={seq} separator")
                    if "T" in seq or "E" in seq or "V" in seq:
                        sigs.add(hashlib.blake2b(repr((V, "feed", seq)).encode(), digest_size=8).digest())
                    if len(samples) < 1 and ("T" in seq and "E" in seq and len(seq) >= 6):
                        samples.append({"V": V, "mode": "watchdog_feed", "sequence": seq})
        elif scenario == "boundary":
            # straddle the read-and-clear feed (#180 since start) with every outcome sequence
            seq = params["seq"]
            nseq[0] += 1
            start = PERIOD - 1 - len(seq) // 2 - ref["count"]
            for i in range(start):
                await feed(app, "S", f"boundary warm-up {i}")
            for i, o in enumerate(seq):
                await feed(app, o, f"boundary seq={seq} step {i} (feed #{ref['count'] + 1})")
            for i in range(3):
                await feed(app, "T", f"boundary seq={seq} tail {i}")
            sigs.add(hashlib.blake2b(repr((V, "boundary", seq)).encode(), digest_size=8).digest())
            if not samples:
                samples.append({"V": V, "mode": "watchdog_feed around feed #180", "sequence": seq})
        elif scenario in ("long", "noisy"):
            n = 400 if scenario == "long" else 150
            seq = []
            run_len = 0
            for i in range(n):
                o = ("S", "S", "V", "T", "E", "T2", "E2", "T", "X")[tape.draw(9, "o")]
                seq.append(o)
            nseq[0] += 1
            for i, o in enumerate(seq):
                await feed(app, o, f"long step {i}")
            sigs.add(hashlib.blake2b(repr((V, "long", tuple(seq))).encode(), digest_size=8).digest())
            samples.append({"V": V, "mode": "watchdog_feed (long)", "sequence_head": "".join(x[0] for x in seq[:60])})
        else:
            # the real watchdog loop in virtual time
            script = params.get("script") or "".join(("S", "V", "T", "E", "T")[tape.draw(5, "o")] for _ in range(6 + tape.draw(30, "n")))
            nseq[0] += 1
            idx = [0]
            feeds = []
            orig_feed = app._watchdog_feed

            async def wrapped_feed():
                i = idx[0]
                idx[0] += 1
                o = script[i] if i < len(script) else "S"
                cur["outcome"] = o
                cur["cmds"] = []
                feeds.append((loop.time(), o))
                return await orig_feed()

            app._watchdog_feed = wrapped_feed
            task = loop.create_task(app._watchdog_loop())
            await asyncio.sleep(0)
            # bellows' loop override clears both counters when the loop starts
            horizon = (len(script) + 3) * (app._watchdog_period + 10.5)
            await asyncio.sleep(horizon)
            # reference: position of the first feed that is the 5th consecutive failure
            fails, stop_at = 0, None
            for i, o in enumerate(script):
                fails = 0 if o in ("S", "V") else fails + 1
                if fails > MAXF:
                    stop_at = i
                    break
            if stop_at is None:
                probe("loop_survived_4_failures")
                if rig.lost:
                    viol.append(("C19.exact", "loop-lost-early", f"v{V} loop script={script}: connection_lost called after {len(feeds)} feeds although no run of {MAXF + 1} consecutive failures occurred"))
                if task.done():
                    viol.append(("C19.exact", "loop-stopped", f"v{V} loop script={script}: the watchdog loop stopped without a restart request"))
            else:
                probe("loop_connection_lost")
                if len(rig.lost) != 1:
                    viol.append(("C19.exact", "loop-lost-count", f"v{V} loop script={script}: connection_lost called {len(rig.lost)} times (expected once, at feed {stop_at})"))
                elif len(feeds) != stop_at + 1:
                    viol.append(("C19.exact", "loop-lost-when", f"v{V} loop script={script}: restart requested after {len(feeds)} feeds, the 5th consecutive failure is feed {stop_at + 1}"))
            if not task.done():
                task.cancel()
            sigs.add(hashlib.blake2b(repr((V, "loop", script)).encode(), digest_size=8).digest())
            samples.append({"V": V, "mode": "_watchdog_loop", "script": script, "feeds": len(feeds), "connection_lost_calls": len(rig.lost)})

    outcome, val = rig.run(main())
    if outcome != "done":
        viol.append(("C19.exact", "sim-" + outcome, f"v{V}: simulation ended with {outcome}: {val!r}"))
    seen, uniq = set(), []
    for v in viol:
        if (v[0], v[1]) not in seen:
            seen.add((v[0], v[1]))
            uniq.append(v)
    res = {"viol": uniq, "faults": {k[5:]: v for k, v in probes.items() if k.startswith("feed.") and k != "feed.S"}, "probes": probes, "vt": loop.time(), "iters": loop.iters,
           "sigs": sigs, "evals": max(1, nseq[0]),
           "digest": hashlib.sha256(repr((rig.log[-200:], loop.time(), loop.iters)).encode()).hexdigest()[:16],
           "sample": samples[0] if samples else {"V": V, "sequences": nseq[0]}}
    if detail:
        res["trace"] = [repr(e) for e in rig.log[-200:]]
    return res
