"""C17 - event-completed operations never miss their completing event or leak listeners (engine E3)."""
import asyncio
import hashlib
import itertools
import types

import bellows.types as t
import bellows.zigbee.application as appmod

from .. import e3
from ..ncpmodel import STATUS, St
from .c08 import decodes

ID = "C17"
LEVEL = "exploration"
ENGINE = "E3 stack"
TECHNIQUE = ("deterministic simulation: formNetwork / leaveNetwork / _ensure_network_running / startScan on the real EZSP stack; the reference NCP emits "
             "the command response and the status / result / completion callbacks at drawn offsets (events before the response included) in virtual time; "
             "complete enumeration of short event schedules, seeded longer ones with caller cancellation and repeated operations")
LEVEL_TEXT = ("for each operation every schedule of {response status, response delay, up to two status events (matching / other) at offsets incl. before the "
              "response, just inside, exactly at and beyond the 10 s operation timeout} is enumerated, for scans every placement of up to three result "
              "callbacks around issue / response / completion; seeded runs repeat operations up to 20 times with cancellation at drawn instants; "
              "exploration beyond the enumerated depth")
COMPONENTS = {
    "real": e3.COMPONENTS["real"] + ["bellows.zigbee.application.ControllerApplication._ensure_network_running (unbound, on a stand-in object holding the EZSP instance)"],
    "simulated": e3.COMPONENTS["simulated"],
}
RULE = ("sweep: (operation, version, response status, response delay, event schedule); random: chains of 1-20 operations with drawn schedules and cancellations. "
        "Non-trivial = anything but 'prompt OK response followed by the matching event'; distinct = distinct (operation, schedule, outcome) digests.")
ASSUMPTIONS = [
    "an event delivered in the same loop iteration as the operation's 10 s deadline may count either way",
    "a scan has no timeout of its own (the statement promises one only for form / leave / bring-up); scans without a completion callback are ended by cancelling the caller",
    "the exception type of a refused command is not constrained beyond 'not a TimeoutError'",
    "command payload schemas inside the NCP model are bellows' own tables",
]
PROBES = ["two_connections", "scan_requested_during_scan", "op.form", "op.leave", "op.ensure", "op.scan", "event_before_response", "event_after_timeout", "event_at_deadline", "nonmatching_event",
          "duplicate_event", "refused", "no_response", "timeout_raised", "cancelled", "already_joined", "not_joined", "scan_result_before_issue",
          "scan_result_before_response", "scan_result_after_completion", "scan_failed_completion", "repeated_operations", "ensure_from_state_1", "ensure_from_state_3", "ensure_from_state_4", "op.overlap", "overlap.refuse", "overlap.cancel", "overlap.timeout"]

RD = (0.02, 1.0, None)
ED = ("early", 0.5, "in", "tie", "late")  # offsets of an event
MATCH = {"form": "NETWORK_UP", "leave": "NETWORK_DOWN", "ensure": "NETWORK_UP"}
OTHER = {"form": "NETWORK_DOWN", "leave": "NETWORK_UP", "ensure": "NETWORK_DOWN"}
CMD = {"form": ("formNetwork",), "leave": ("leaveNetwork",), "ensure": ("networkInit", "networkInitExtended")}


def plan(tier):
    sweeps = []
    evopts = [(k, d) for k in ("match", "other") for d in range(len(ED))]
    scheds = [[]] + [[e] for e in evopts] + [list(p) for p in itertools.product(evopts, repeat=2)]
    Vs = (8, 14) if tier == "quick" else (4, 6, 8, 13, 14)
    for V in Vs:
        for op in ("form", "leave", "ensure"):
            for status in ("OK", "refuse"):
                for rdi in range(len(RD)):
                    chunk = 28 if tier == "quick" else 12
                    for i in range(0, len(scheds), chunk):
                        sweeps.append(("status", {"V": V, "op": op, "status": status, "rd": rdi, "scheds": scheds[i:i + chunk], "sched": False}))
        sweeps.append(("ensure_state", {"V": V, "sched": False}))
        sweeps.append(("overlap", {"V": V, "sched": False}))
        sweeps.append(("twin", {"V": V, "sched": False}))
        sweeps.append(("scan_overlap", {"V": V, "sched": False}))
        for part in range(4):
            sweeps.append(("scan", {"V": V, "part": part, "sched": False}))
    return {
        "sweeps": sweeps,
        "exhaustive": "operation {form, leave, bring-up} x response {OK, refused} x response delay {20 ms, 1 s, never} x every schedule of <= 2 status events (matching/other) at 5 offsets; scans: every placement of <= 3 result callbacks in 5 slots x completion {ok, failed} x response {ok, refused}",
        "random": [("random", {}, 1)],
        "runs": 1500 if tier == "quick" else None,
        "budget_s": 60 if tier == "quick" else 900,
        "batch": 25,
        "sweep_batch": 4,
    }


def run_twin(params, tape, detail=False):
    """Two EZSP connections in one process: a form / leave wait pending on one of them is completed only by ITS OWN NCP's status event, never by
    an event that arrives on the other connection."""
    import bellows.uart
    import zigpy.serial

    V = params["V"]
    rig_a = e3.StackRig(tape, version=V, sched=params.get("sched", True), fast_line=True, chunking=False, max_iters=2_000_000, max_vt=1e8)
    rig_b = e3.StackRig(tape, version=V, loop=rig_a.loop, fast_line=True, chunking=False)
    loop = rig_a.loop
    viol, probes, out = [], {"two_connections": 1}, {}

    async def connect(rig):
        zigpy.serial.create_serial_connection = rig._create_serial_connection
        bellows.uart.zigpy.serial.create_serial_connection = rig._create_serial_connection
        return await rig.bringup()

    async def op(label, coro):
        t0 = loop.time()
        try:
            await coro
            out[label] = ("ok", loop.time() - t0)
        except asyncio.CancelledError:
            out[label] = ("cancelled", loop.time() - t0)
            raise
        except BaseException as e:  # noqa: BLE001
            out[label] = ("raised", type(e).__name__, loop.time() - t0)

    async def main():
        ez_a, ez_b = await connect(rig_a), await connect(rig_b)
        par = t.EmberNetworkParameters.deserialize(bytes(40))[0]
        rig_b.ncp.emit_stack_status = False  # B's NCP accepts the commands but its status events never come
        # B waits for NETWORK_UP; meanwhile A forms its own network and gets its NETWORK_UP
        tb = loop.create_task(op("B.form", ez_b.formNetwork(parameters=par)))
        await asyncio.sleep(0.5)
        await op("A.form", ez_a.formNetwork(parameters=par))
        await asyncio.sleep(11.0)
        # the same for NETWORK_DOWN
        rig_b.ncp.net_state = 2  # (joined, as far as B's NCP is concerned)
        tb2 = loop.create_task(op("B.leave", ez_b.leaveNetwork()))
        await asyncio.sleep(0.5)
        await op("A.leave", ez_a.leaveNetwork())
        await asyncio.sleep(11.0)
        for t_ in (tb, tb2):
            if not t_.done():
                t_.cancel()
        out["listeners"] = (sum(len(v) for v in ez_a._stack_status_listeners.values()), sum(len(v) for v in ez_b._stack_status_listeners.values()))

    outcome, val = rig_a.run(main())
    tag = f"v{V} two connections"
    if outcome != "done":
        viol.append(("C17.both", "sim-" + outcome, f"{tag}: simulation ended with {outcome}: {val!r}"))
    else:
        for lab in ("A.form", "A.leave"):
            if out.get(lab, ("",))[0] != "ok":
                viol.append(("C17.both", "twin-own-event-missed", f"{tag}: {lab} ended {out.get(lab)} although its own NCP answered OK and emitted the status event"))
        for lab in ("B.form", "B.leave"):
            o = out.get(lab)
            if o is None or o[0] == "ok":
                viol.append(("C17.both", "completed-by-another-connections-event", f"{tag}: {lab} ended {o}: its own NCP never emitted the status event; the only "
                             f"matching event arrived on the OTHER connection"))
            elif o[0] == "raised" and (o[1] != "TimeoutError" or o[2] > 10.0 + 0.6):
                viol.append(("C17.raise", "twin-timeout-when", f"{tag}: {lab} ended {o} (expected the operation time-out 10 s after the command's response)"))
        if out.get("listeners") != (0, 0):
            viol.append(("C17.clean", "leak", f"{tag}: status listeners left after all operations ended: {out.get('listeners')}"))
    sig = hashlib.blake2b(repr(("twin", V, sorted((k, v[0]) for k, v in out.items() if isinstance(v, tuple) and isinstance(v[0], str)))).encode(), digest_size=8).digest()
    return {"viol": viol, "faults": {}, "probes": probes, "vt": loop.time(), "iters": loop.iters, "sig": sig, "nontrivial": True,
            "digest": hashlib.sha256(repr((rig_a.log[-200:], rig_b.log[-200:], sorted(out.items(), key=str))).encode()).hexdigest()[:16],
            "sample": {"scenario": "twin", "V": V, "outcomes": {k: str(v) for k, v in out.items()}}}


def run_scan_overlap(params, tape, detail=False):
    """A second scan is requested while one is in progress; the NCP refuses it. The first scan returns its own results, in order, and when
    both calls have ended nothing registered for either of them remains."""
    V = params["V"]
    rig = e3.StackRig(tape, version=V, sched=params.get("sched", True), fast_line=True, chunking=False, max_iters=2_000_000, max_vt=1e8)
    loop, ncp = rig.loop, rig.ncp
    viol, probes, out = [], {"scan_requested_during_scan": 1}, {}

    def scan(ez, chans):
        return ez.startScan(scanType=t.EzspNetworkScanType.ENERGY_SCAN, channelMask=t.Channels.from_channel_list(chans), duration=1)

    async def op(label, coro):
        try:
            out[label] = ("ok", await coro)
        except asyncio.CancelledError:
            out[label] = ("cancelled",)
            raise
        except BaseException as e:  # noqa: BLE001
            out[label] = ("raised", repr(e))

    async def main():
        ez = await rig.bringup()
        ncp.scan_step, ncp.scan_exclusive = 0.3, True
        base = len(ez._callbacks)
        ta = loop.create_task(op("A", scan(ez, [11, 15, 20])))
        await asyncio.sleep(0.45)
        await op("B", scan(ez, [12, 13]))  # refused at once
        out["after_B"] = len(ez._callbacks) - base
        await asyncio.sleep(3.0)
        if not ta.done():
            ta.cancel()
        out["after_A"] = len(ez._callbacks) - base
        # a later scan works and collects only its own results
        ncp._scan_busy_until = -1.0
        await op("C", scan(ez, [25, 26]))
        out["after_C"] = len(ez._callbacks) - base
        out["loop_exceptions"] = len(loop.exceptions)

    outcome, val = rig.run(main())
    tag = f"v{V} scan requested while a scan is in progress"
    if outcome != "done":
        viol.append(("C17.scan", "sim-" + outcome, f"{tag}: simulation ended with {outcome}: {val!r}"))
    else:
        def chans_of(o):
            return [int(r[0]) for r in o[1]] if o and o[0] == "ok" else None

        if chans_of(out.get("A")) != [11, 15, 20]:
            viol.append(("C17.scan", "overlap-first-scan", f"{tag}: the scan in progress returned {out.get('A')} (expected results for channels 11, 15, 20 in order)"))
        if out.get("B", ("",))[0] != "raised":
            viol.append(("C17.raise", "overlap-refused-scan", f"{tag}: the refused second scan ended {out.get('B')}"))
        if chans_of(out.get("C")) != [25, 26]:
            viol.append(("C17.scan", "overlap-later-scan", f"{tag}: a later scan returned {out.get('C')} (expected results for channels 25, 26)"))
        for k in ("after_B", "after_A", "after_C"):
            want = 1 if k == "after_B" else 0
            if out.get(k) != want:
                viol.append(("C17.clean", "leak", f"{tag}: {out.get(k)} callback(s) registered beyond the baseline {k.replace('_', ' ')} ended (expected {want})"))
                break
    sig = hashlib.blake2b(repr(("scan_overlap", V, out.get("A", ("",))[0], out.get("B", ("",))[0])).encode(), digest_size=8).digest()
    return {"viol": viol, "faults": {}, "probes": probes, "vt": loop.time(), "iters": loop.iters, "sig": sig, "nontrivial": True,
            "digest": hashlib.sha256(repr((rig.log[-200:], sorted((k, repr(v)) for k, v in out.items()))).encode()).hexdigest()[:16],
            "sample": {"scenario": "scan_overlap", "V": V, "outcomes": {k: str(v)[:80] for k, v in out.items()}}}


def run(scenario, params, tape, detail=False):
    if scenario == "twin":
        return run_twin(params, tape, detail)
    if scenario == "scan_overlap":
        return run_scan_overlap(params, tape, detail)
    V = params["V"] if "V" in params else (4, 6, 8, 13, 14)[tape.draw(5, "V")]
    rig = e3.StackRig(tape, version=V, sched=params.get("sched", True), fast_line=True, chunking=False, max_iters=3_000_000, max_vt=1e8)
    loop, ncp = rig.loop, rig.ncp
    viol, probes = [], {}
    sigs = set()
    nev = [0]
    samples = []
    ncp.emit_stack_status = False  # this property scripts the events itself

    def probe(n, k=1):
        probes[n] = probes.get(n, 0) + k

    script = {}  # per command name: dict(status, rd, events[(offset, kind, vals)]) consumed by the next matching request
    frames = []  # (t, payload) every EZSP frame handed to the host's EZSP layer
    listener_errors = []

    def deliver(req, payload):
        sc = script.get(req.name)
        if isinstance(sc, list):
            sc = sc.pop(0) if sc else None
        else:
            script.pop(req.name, None)
        if sc is None:
            req.nrsp += 1
            ncp.emit(payload, 0.0, "rsp", req.seq)
            return
        sc["req"] = req
        sc["t_req"] = loop.time()
        items = []
        if sc["rd"] is not None:
            items.append((sc["rd"], 0, "rsp", None))
        for i, (off, cbname, vals) in enumerate(sc["events"]):
            items.append((off, 1 + i, "cb", (cbname, vals)))
        for off, _i, kind, what in sorted(items, key=lambda x: (x[0], x[1])):
            if kind == "rsp":
                pl = ncp.encode_rsp(req, sc["rsp_vals"])
                loop.external(loop.time() + off, lambda pl=pl: (ncp.emit(pl, 0.0, "rsp", req.seq)), group="ncp-app")
            else:
                loop.external(loop.time() + off, lambda what=what: ncp.emit(ncp.encode_cb(what[0], what[1]), 0.0, "cb"), group="ncp-app")

    ncp.deliver = deliver
    # handlers return placeholders; the scripted response values replace them
    for nm in ("formNetwork", "leaveNetwork", "networkInit", "networkInitExtended", "startScan"):
        setattr(ncp, "h_" + nm, (lambda req, **kw: (St("OK"),)))
    net_state = [0]
    ncp.h_networkState = lambda req: (net_state[0],)

    def fid(name):
        return ncp.cmds[name][0]

    async def op_status(ez, op, status, rd, evs, cancel_at=None, label="", state0=0):
        """evs: [(kind 'match'|'other', offset key)]"""
        nev[0] += 1
        probe("op." + op)
        cmdname = [c for c in CMD[op] if c in ncp.cmds and (op != "ensure" or (c == "networkInitExtended") == (V < 6))][0]
        ncb0 = len(ez._callbacks)
        nl0 = sum(len(v) for v in ez._stack_status_listeners.values())
        base_rd = rd if rd is not None else 0.02
        events = []
        for kind, dk in evs:
            off = {"early": 0.005 if base_rd > 0.01 else 0.001, 0.5: 0.5, "in": base_rd + 9.99, "tie": base_rd + 10.0, "late": base_rd + 10.5}[ED[dk]]
            events.append((off, "stackStatusHandler", (St(MATCH[op] if kind == "match" else OTHER[op]),)))
            if kind == "other":
                probe("nonmatching_event")
        if len([1 for k, _ in evs if k == "match"]) > 1:
            probe("duplicate_event")
        script[cmdname] = {"status": status, "rd": rd, "events": events,
                           "rsp_vals": (St("OK" if status == "OK" else ("NOT_JOINED" if status == "not_joined" else "INVALID_CALL")),)}
        # what networkState reports when bring-up asks: anything but JOINED_NETWORK (2) means the stack still has to be initialised -
        # also JOINING (1), JOINED_NO_PARENT (3) or LEAVING (4) left over from an earlier, unfinished operation
        net_state[0] = state0
        if state0:
            probe("ensure_from_state_%d" % state0)
        f0 = len(frames)
        t_issue = loop.time()
        res = {}

        async def call():
            try:
                if op == "form":
                    r = await ez.formNetwork(parameters=t.EmberNetworkParameters.deserialize(bytes(40))[0])
                elif op == "leave":
                    r = await ez.leaveNetwork()
                else:
                    r = await appmod.ControllerApplication._ensure_network_running(types.SimpleNamespace(_ezsp=ez))
                res["out"] = ("ok", r, loop.time())
            except asyncio.CancelledError:
                res["out"] = ("cancelled", None, loop.time())
                raise
            except BaseException as e:
                res["out"] = ("raised", e, loop.time())

        task = loop.create_task(call())
        if cancel_at is not None:
            loop.external(t_issue + cancel_at, task.cancel, group=None)
        horizon = base_rd + 12.0 if rd is not None else 12.0
        await asyncio.sleep(horizon)
        if not task.done():
            viol.append(("C17.raise", "pending", f"v{V} {op} {label}: call still pending {horizon:.1f}s after issue"))
            task.cancel()
            await asyncio.sleep(0.01)
        out = res.get("out")
        # what was actually delivered to the host's EZSP layer, and when
        my = frames[f0:]
        sfid, cfid = fid("stackStatusHandler"), fid(cmdname)
        t_resp = None
        ev_times = []
        for (tt, name, vals) in my:
            if name == cmdname and t_resp is None:
                t_resp = tt
            elif name == "stackStatusHandler":
                ev_times.append((tt, vals))
        want = MATCH[op]
        codes = set(STATUS[want])
        matches = sorted(tt for (tt, vals) in ev_times if int(vals[0]) in codes and tt >= t_issue)
        tag = f"v{V} {op} status={status} rd={rd} events={[(k, ED[d]) for k, d in evs]} cancel_at={cancel_at} {label}"
        if cancel_at is not None and out and out[0] == "cancelled":
            probe("cancelled")
        elif out is None:
            pass
        elif rd is None:
            probe("no_response")
            if out[0] != "raised" or not isinstance(out[1], asyncio.TimeoutError):
                viol.append(("C17.raise", "no-response", f"{tag}: the command was never answered but the call ended with {out[0]} {out[1]!r}"))
        elif status != "OK":
            probe("refused")
            if out[0] != "raised" or isinstance(out[1], asyncio.TimeoutError) and t_resp is not None and out[2] > t_resp + 1e-9:
                viol.append(("C17.raise", "refused-not-raised", f"{tag}: the command was refused at t={t_resp} but the call ended with {out[0]} {out[1]!r} at t={out[2]:.4f}"))
            if out[0] == "ok":
                viol.append(("C17.both", "returned-after-refusal", f"{tag}: the call returned although the command was refused"))
        else:
            if t_resp is None and out[0] == "ok":
                viol.append(("C17.both", "returned-without-command", f"{tag}: the call returned {out[1]!r} at t={out[2]:.4f} although its command never reached the NCP (no response, no event awaited)"))
            elif t_resp is None:
                viol.append(("C17.both", "harness", f"{tag}: response not delivered"))
            else:
                deadline = t_resp + 10.0
                first = matches[0] if matches else None
                if first is not None and first < t_resp:
                    probe("event_before_response")
                if first is not None and first < deadline - 1e-9:
                    exp_t = max(first, t_resp)
                    if out[0] != "ok" or abs(out[2] - exp_t) > 1e-6:
                        key = "missed-early-event" if first < t_resp else "missed-event"
                        viol.append(("C17.both", key, f"{tag}: command succeeded at t={t_resp:.4f}, matching event delivered at t={first:.4f} (issued t={t_issue:.4f}); call ended {out[0]} {out[1]!r} at t={out[2]:.4f}"))
                elif first is not None and abs(first - deadline) <= 1e-9:
                    probe("event_at_deadline")
                    if not (abs(out[2] - deadline) <= 1e-6 and (out[0] == "ok" or isinstance(out[1], asyncio.TimeoutError))):
                        viol.append(("C17.raise", "tie", f"{tag}: event exactly at the deadline t={deadline:.4f}; call ended {out[0]} {out[1]!r} at t={out[2]:.4f}"))
                else:
                    if first is not None:
                        probe("event_after_timeout")
                    if out[0] == "ok":
                        viol.append(("C17.both", "returned-without-event", f"{tag}: the call returned at t={out[2]:.4f} although no matching event was delivered between issue and the deadline (events {ev_times})"))
                    elif not isinstance(out[1], asyncio.TimeoutError) or out[2] > deadline + 1e-6 or out[2] < deadline - 1e-6:
                        viol.append(("C17.raise", "timeout-when", f"{tag}: expected TimeoutError at t={deadline:.4f}, call ended {out[0]} {out[1]!r} at t={out[2]:.4f}"))
                    else:
                        probe("timeout_raised")
        # C17.clean
        await asyncio.sleep(0.5)
        ncb1 = len(ez._callbacks)
        nl1 = sum(len(v) for v in ez._stack_status_listeners.values())
        if ncb1 != ncb0 or nl1 != nl0:
            viol.append(("C17.clean", "leak", f"{tag}: registered callbacks {ncb0}->{ncb1}, status listeners {nl0}->{nl1} after the call ended ({out and out[0]})"))
        e0 = len(listener_errors)
        ncp.callback("stackStatusHandler", (St(want),))
        await asyncio.sleep(0.05)
        if len(listener_errors) > e0:
            viol.append(("C17.clean", "stale-listener-invoked", f"{tag}: a status event after the call ended hit a stale listener: {listener_errors[-1]}"))
        nontrivial = not (status == "OK" and rd == 0.02 and [(k, ED[d]) for k, d in evs] == [("match", 0.5)])
        if nontrivial:
            sigs.add(hashlib.blake2b(repr((V, op, status, rd, evs, cancel_at, out and out[0])).encode(), digest_size=8).digest())
            if len(samples) < 2:
                samples.append({"op": op, "V": V, "status": status, "response_delay": rd, "events": [(k, str(ED[d])) for k, d in evs], "outcome": out and (out[0], repr(out[1]), round(out[2] - t_issue, 4))})

    async def op_overlap(ez, op, a_mode, gap):
        """Two overlapping operations waiting for the same status: A ends early without ever seeing a matching event (refused, cancelled, or timed out),
        B - issued while A was still pending - gets an OK response and its matching event afterwards and must return."""
        nev[0] += 1
        probe("op.overlap")
        probe("overlap." + a_mode)
        cmdname = [c for c in CMD[op] if c in ncp.cmds and (op != "ensure" or (c == "networkInitExtended") == (V < 6))][0]
        nl0 = sum(len(v) for v in ez._stack_status_listeners.values())
        ok_vals, no_vals = (St("OK"),), (St("INVALID_CALL"),)
        ev = [(0.5, "stackStatusHandler", (St(MATCH[op]),))]
        if a_mode == "refuse":
            sa = {"status": "refuse", "rd": 0.2, "events": [], "rsp_vals": no_vals}
        elif a_mode == "cancel":
            sa = {"status": "OK", "rd": None, "events": [], "rsp_vals": ok_vals}  # cancelled before any answer; none follows
        else:  # timeout: answered, never followed by the event
            sa = {"status": "OK", "rd": 0.02, "events": [], "rsp_vals": ok_vals}
            gap = 9.9
        sb = {"status": "OK", "rd": 0.02, "events": ev, "rsp_vals": ok_vals}
        script[cmdname] = [sa, sb]
        net_state[0] = 0
        f0 = len(frames)
        outs = {}

        async def call(k):
            try:
                if op == "form":
                    r = await ez.formNetwork(parameters=t.EmberNetworkParameters.deserialize(bytes(40))[0])
                elif op == "leave":
                    r = await ez.leaveNetwork()
                else:
                    r = await appmod.ControllerApplication._ensure_network_running(types.SimpleNamespace(_ezsp=ez))
                outs[k] = ("ok", r, loop.time())
            except asyncio.CancelledError:
                outs[k] = ("cancelled", None, loop.time())
                raise
            except BaseException as e:  # noqa: BLE001
                outs[k] = ("raised", e, loop.time())

        t0 = loop.time()
        ta = loop.create_task(call("A"))
        if a_mode == "cancel":
            loop.external(t0 + min(gap, 0.01) + 0.005, ta.cancel, group=None)
        await asyncio.sleep(gap)
        t_b = loop.time()
        tb = loop.create_task(call("B"))
        await asyncio.sleep(13.0)
        for tk in (ta, tb):
            if not tk.done():
                tk.cancel()
        await asyncio.sleep(0.01)
        my = frames[f0:]
        codes = set(STATUS[MATCH[op]])
        evt = [tt for (tt, name, vals) in my if name == "stackStatusHandler" and int(vals[0]) in codes and tt >= t_b]
        rsp = [tt for (tt, name, vals) in my if name == cmdname]
        tag = f"v{V} overlapping {op} x2: A {a_mode}, B issued {gap}s later"
        ob = outs.get("B")
        if evt and len(rsp) >= 1:
            exp_t = max(evt[0], rsp[-1])
            if ob is None or ob[0] != "ok" or abs(ob[2] - exp_t) > 1e-6:
                viol.append(("C17.both", "missed-event-overlap", f"{tag}: B's command succeeded (t={rsp[-1]:.4f}) and the matching event was delivered at t={evt[0]:.4f}, after B was issued "
                             f"(t={t_b:.4f}); B ended {ob and ob[0]} {ob and ob[1]!r} at t={ob and ob[2]}; A ended {outs.get('A') and outs['A'][0]}"))
        else:
            viol.append(("C17.both", "harness", f"{tag}: B's response/event not delivered (responses {rsp}, events {evt})"))
        oa = outs.get("A")
        if a_mode == "refuse" and (oa is None or oa[0] != "raised"):
            viol.append(("C17.raise", "refused-not-raised", f"{tag}: A was refused but ended {oa and oa[0]}"))
        if a_mode == "timeout" and (oa is None or oa[0] != "raised" or not isinstance(oa[1], asyncio.TimeoutError)):
            # A's deadline (10.02 s after issue) lies before B's event (about 10.4 s)
            viol.append(("C17.raise", "timeout-when", f"{tag}: A never saw an event before its deadline but ended {oa and oa[0]} {oa and oa[1]!r}"))
        await asyncio.sleep(0.5)
        script.pop(cmdname, None)
        nl1 = sum(len(v) for v in ez._stack_status_listeners.values())
        if nl1 != nl0:
            viol.append(("C17.clean", "leak", f"{tag}: status listeners {nl0}->{nl1} after both calls ended"))
        sigs.add(hashlib.blake2b(repr((V, "overlap", op, a_mode, gap, ob and ob[0], oa and oa[0])).encode(), digest_size=8).digest())

    async def op_scan(ez, status, pre, items, completion, cancel_at=None, label=""):
        """pre: result callbacks emitted before issue; items: [(slot, channel)] slots 'before_rsp','after_rsp','after_done'; completion 'ok'|'fail'|'none'"""
        nev[0] += 1
        probe("op.scan")
        ncb0 = len(ez._callbacks)
        for ch in pre:
            probe("scan_result_before_issue")
            ncp.callback("energyScanResultHandler", (ch, -50))
        await asyncio.sleep(0.05)
        events = []
        rd = 0.1
        done_at = 0.6
        for (slot, ch) in items:
            off = {"before_rsp": 0.05, "after_rsp": 0.3, "after_done": 0.8}[slot]
            probe({"before_rsp": "scan_result_before_response", "after_rsp": "op.scan", "after_done": "scan_result_after_completion"}[slot])
            events.append((off + 0.001 * len(events), "energyScanResultHandler", (ch, -40 - len(events))))
        if completion != "none":
            events.append((done_at, "scanCompleteHandler", (0, St("OK" if completion == "ok" else "FAIL"))))
        script["startScan"] = {"status": status, "rd": rd, "events": events, "rsp_vals": (St("OK" if status == "OK" else "INVALID_CALL"),)}
        f0 = len(frames)
        t_issue = loop.time()
        res = {}

        async def call():
            try:
                r = await ez.startScan(scanType=t.EzspNetworkScanType.ENERGY_SCAN, channelMask=t.Channels.ALL_CHANNELS, duration=2)
                res["out"] = ("ok", r, loop.time())
            except asyncio.CancelledError:
                res["out"] = ("cancelled", None, loop.time())
                raise
            except BaseException as e:
                res["out"] = ("raised", e, loop.time())

        task = loop.create_task(call())
        if cancel_at is not None:
            loop.external(t_issue + cancel_at, task.cancel, group=None)
        await asyncio.sleep(2.0)
        if not task.done():
            if completion != "none" and status == "OK":
                viol.append(("C17.scan", "pending", f"v{V} scan {label}: still pending 2 s after issue although the completion callback was delivered"))
            task.cancel()
            await asyncio.sleep(0.01)
        out = res.get("out")
        my = frames[f0:]
        t_resp = next((tt for (tt, n, v) in my if n == "startScan"), None)
        t_done = next((tt for (tt, n, v) in my if n == "scanCompleteHandler"), None)
        expect = [[int(v[0]), int(v[1])] for (tt, n, v) in my if n == "energyScanResultHandler" and tt >= t_issue and (t_done is None or tt < t_done)]
        tag = f"v{V} scan status={status} pre={pre} items={items} completion={completion} cancel_at={cancel_at} {label}"
        if out and out[0] == "ok":
            got = [[int(x[0]), int(x[1])] for x in out[1]]
            if status != "OK" or completion != "ok":
                viol.append(("C17.raise", "scan-returned", f"{tag}: scan returned {got} although the command was refused or the scan failed"))
            elif got != expect:
                viol.append(("C17.scan", "results", f"{tag}: returned {got}, result callbacks delivered between issue and completion were {expect}"))
        elif out and out[0] == "raised":
            if status == "OK" and completion == "ok" and cancel_at is None:
                viol.append(("C17.scan", "raised", f"{tag}: scan raised {out[1]!r}"))
            if completion == "fail":
                probe("scan_failed_completion")
        await asyncio.sleep(0.5)
        if len(ez._callbacks) != ncb0:
            viol.append(("C17.clean", "leak", f"{tag}: registered callbacks {ncb0}->{len(ez._callbacks)} after the scan ended ({out and out[0]})"))
        sigs.add(hashlib.blake2b(repr((V, "scan", status, tuple(pre), tuple(items), completion, cancel_at, out and out[0])).encode(), digest_size=8).digest())
        if len(samples) < 2:
            samples.append({"op": "scan", "V": V, "status": status, "pre": pre, "items": items, "completion": completion, "outcome": out and (out[0], repr(out[1])[:80])})

    async def main():
        ez = await rig.bringup()
        orig = ez.frame_received

        def frame_received(data):
            # decode with the NCP-side tables, for bookkeeping only
            d = bytes(data)
            name, ok, _seq = decodes(V, d)
            vals = None
            if ok:
                rx = ncp.cmds[name][2]
                body = d[3 if V < 5 else 5:]
                vals = []
                if isinstance(rx, dict):
                    for ty in rx.values():
                        v, body = ty.deserialize(body)
                        vals.append(v)
            frames.append((loop.time(), name, vals))
            return orig(data)

        ez.frame_received = frame_received
        # wrap the built-in status callback to see exceptions it raises (stale listeners)
        for cid, cb in list(ez._callbacks.items()):
            if getattr(cb, "__func__", None) is type(ez).stack_status_callback:
                def wrapped(name, args, cb=cb):
                    try:
                        return cb(name, args)
                    except Exception as e:
                        listener_errors.append(repr(e))
                        raise
                ez._callbacks[cid] = wrapped
        if scenario == "status":
            for evs in params["scheds"]:
                await op_status(ez, params["op"], params["status"], RD[params["rd"]], [tuple(e) for e in evs])
        elif scenario == "ensure_state":
            # already joined: no init command, returns False
            net_state[0] = 2
            n0 = len(ncp.requests)
            r = await appmod.ControllerApplication._ensure_network_running(types.SimpleNamespace(_ezsp=ez))
            probe("already_joined")
            if r is not False or any(q.name.startswith("networkInit") for q in ncp.requests[n0:]):
                viol.append(("C17.both", "joined", f"v{V}: bring-up on a joined network returned {r!r} / sent networkInit"))
            nev[0] += 1
            for st_ in ("not_joined",):
                probe("not_joined")
                await op_status(ez, "ensure", st_, 0.02, [("match", 1)], label="not joined")
            for state0 in (1, 3, 4):
                await op_status(ez, "ensure", "OK", 0.02, [("match", 1)], label=f"networkState={state0}", state0=state0)
                await op_status(ez, "ensure", "refuse", 0.02, [], label=f"networkState={state0}", state0=state0)
                await op_status(ez, "ensure", "OK", 0.02, [], label=f"networkState={state0}", state0=state0)
        elif scenario == "overlap":
            for op in ("form", "leave", "ensure"):
                for a_mode in ("refuse", "cancel", "timeout"):
                    for gap in (0.0, 0.01, 0.1):
                        if a_mode == "timeout" and gap:
                            continue
                        await op_overlap(ez, op, a_mode, gap)
        elif scenario == "scan":
            slots = ("before_rsp", "after_rsp", "after_done")
            combos = []
            for n in range(0, 4):
                for c in itertools.product(slots, repeat=n):
                    if list(c) == sorted(c, key=slots.index):
                        combos.append(c)
            cases = []
            for status in ("OK", "refuse"):
                for completion in ("ok", "fail"):
                    for pre in ((), (11,)):
                        for c in combos:
                            cases.append((status, completion, pre, c))
            part = params["part"]
            for i, (status, completion, pre, c) in enumerate(cases):
                if i % 4 != part:
                    continue
                items = [(s, 12 + j) for j, s in enumerate(c)]
                await op_scan(ez, status, list(pre), items, completion)
        else:
            n = 1 + tape.draw(20, "nops")
            if n > 1:
                probe("repeated_operations")
            for _ in range(n):
                if tape.draw(6, "overlap?") == 5:
                    await op_overlap(ez, ("form", "leave", "ensure")[tape.draw(3, "oop")], ("refuse", "cancel", "timeout")[tape.draw(3, "amode")], (0.0, 0.01, 0.1)[tape.draw(3, "ogap")])
                    continue
                k = tape.draw(4, "op")
                cancel_at = (None, None, None, 0.0, 0.01, 0.03, 0.5, 5.0, 10.02)[tape.draw(9, "cancel")]
                if k == 3:
                    items = [(("before_rsp", "after_rsp", "after_done")[tape.draw(3, "slot")], 11 + j) for j in range(tape.draw(5, "nitems"))]
                    items.sort(key=lambda x: ("before_rsp", "after_rsp", "after_done").index(x[0]))
                    await op_scan(ez, ("OK", "OK", "refuse")[tape.draw(3, "st")], [20] * tape.draw(2, "pre"), items,
                                  ("ok", "ok", "fail", "none")[tape.draw(4, "compl")], cancel_at if cancel_at is not None and cancel_at < 2 else None)
                else:
                    op = ("form", "leave", "ensure")[k]
                    evs = [(("match", "other")[tape.draw(2, "ek")], tape.draw(len(ED), "ed")) for _ in range(tape.draw(4, "nev"))]
                    await op_status(ez, op, ("OK", "OK", "OK", "refuse")[tape.draw(4, "st")], RD[(0, 0, 1, 2)[tape.draw(4, "rd")]], evs, cancel_at,
                                    state0=(0, 0, 1, 3, 4)[tape.draw(5, "state0")] if op == "ensure" else 0)

    outcome, val = rig.run(main())
    if outcome != "done":
        viol.append(("C17.raise", "sim-" + outcome, f"v{V}: simulation ended with {outcome}: {val!r}"))
    seen, uniq = set(), []
    for v in viol:
        if (v[0], v[1]) not in seen:
            seen.add((v[0], v[1]))
            uniq.append(v)
    res = {"viol": uniq, "faults": {}, "probes": probes, "vt": loop.time(), "iters": loop.iters, "sigs": sigs, "evals": max(1, nev[0]),
           "digest": hashlib.sha256(repr((rig.log[-200:], loop.time(), loop.iters)).encode()).hexdigest()[:16],
           "sample": samples[0] if samples else {"V": V, "operations": nev[0]}}
    if detail:
        res["trace"] = [repr(e) for e in rig.log[-300:]]
    return res
