"""C02 - receiver == reference decoder for any byte stream and any chunking (engine E2, sync mode)."""
import hashlib
import itertools
import tracemalloc

import bellows.ash as ash

from .. import e2
from .. import refash as R

ID = "C02"
LEVEL = "exploration"
ENGINE = "E2 ashpeer"
TECHNIQUE = ("deterministic simulation of the serial read path: enumerated and seeded byte streams x read chunkings, differential against a specification-derived decoder"
             ' The live-link engine E1 (host frames in flight, windowed reference NCP, line faults, reads spanning frame boundaries) is a further seeded scenario of this check, with the reference receiver fed the same bytes.')
LEVEL_TEXT = ("complete sweep of all strings over a 16-symbol reserved-byte-rich alphabet up to a length bound with all chunkings, "
              "plus seeded mutated frame streams with random chunking and a garbage flood for the memory bound; exploration beyond the swept lengths")
COMPONENTS = e2.COMPONENTS
RULE = ("alpha: every string over {7E 7D 11 13 18 1A 5E 5D 31 33 38 3A 81 60 59 C0} up to length L with all 2^(n-1) chunkings; "
        "mutated: concatenations of valid frames of all six types with byte insertions/deletions/flips/reserved-byte injections, random chunks; "
        "flood: megabytes of flag-free garbage then valid frames. Non-trivial = the reference decoder produces at least one event "
        "(ACK/NAK written, payload or reset handed up); distinct = distinct (stream, chunking-class) digests.")
ASSUMPTIONS = [
    "the reference decoder (dst/refash.py) follows UG101's reserved-byte table; ESCAPE before a reserved byte has no effect",
    "frames with a valid CRC but an illegal length for their type (ACK/NAK with data, empty DATA) are don't-cares and accepted by the model as bellows does",
    "chunkings keep buffered residue + chunk <= MAX_BUFFER_SIZE except in the flood scenario",
]
PROBES = ["up", "reset", "ack", "nak", "cancel_byte", "substitute_byte", "xon_xoff", "bad_escape", "bad_crc", "dangling_escape"]

ALPHA = bytes([0x7E, 0x7D, 0x11, 0x13, 0x18, 0x1A, 0x5E, 0x5D, 0x31, 0x33, 0x38, 0x3A, 0x81, 0x60, 0x59, 0xC0])


def plan(tier):
    L = 4 if tier == "quick" else 5
    sweeps = [("alpha", {"first": a, "L": L}) for a in range(16)] if L <= 4 else \
             [("alpha", {"first": a, "second": b, "L": L}) for a in range(16) for b in range(16)]
    return {
        "sweeps": sweeps,
        "exhaustive": f"all byte strings of length 1..{L} over the 16-symbol alphabet x all 2^(n-1) chunkings",
        "random": [("mutated", {"n": 200}, 12), ("flood", {"mb": 1 if tier == "quick" else 4}, 1), ("link", {}, 12), ("soak", {}, 2)],
        "runs": 2500 if tier == "quick" else None,
        "budget_s": 60 if tier == "quick" else 900,
        "batch": 25,
    }


def _model_events(data):
    m = R.HostReceiverModel()
    m.feed(data)
    return m


def _check(data, cuts, viol, stats):
    err, model, host = e2.diff_stream(data, cuts)
    if err is not None:
        viol.append((err[0], _key(err[0], model, host), err[1]))
    return model


def _key(clause, model, host):
    return "stream"


def run_alpha(params, tape):
    L = params["L"]
    first = params["first"]
    second = params.get("second")
    viol = []
    evals = 0
    sigs = set()
    probes = {}
    for n in range(1, L + 1):
        if second is not None and n < 2:
            if second != 0:
                continue
        fixed = 1 if second is None or n < 2 else 2
        for rest in itertools.product(ALPHA, repeat=n - fixed):
            if fixed == 1:
                data = bytes([ALPHA[first]]) + bytes(rest)
            else:
                data = bytes([ALPHA[first], ALPHA[second]]) + bytes(rest)
            model = R.HostReceiverModel()
            model.feed(data)
            nt = bool(model.ev)
            for mask in range(1 << (n - 1)):
                cuts = [i + 1 for i in range(n - 1) if mask >> i & 1]
                host = e2.SyncHost()
                prev = 0
                ok = True
                for c in cuts + [n]:
                    if not host.feed(data[prev:c]):
                        viol.append(("C02.noraise", "alpha", f"data_received raised {host.raised!r} for stream {data.hex()} cuts={cuts}"))
                        ok = False
                        break
                    prev = c
                evals += 1
                if not ok:
                    continue
                up_r, wr_r = e2.split_streams(host.ev)
                if up_r != model.up:
                    cl = "C02.nodeliver" if len(up_r) > len(model.up) else "C02.equiv"
                    viol.append((cl, "alpha", f"upward calls differ for stream {data.hex()} cuts={cuts}: real {up_r} model {model.up}"))
                elif wr_r != model.wr:
                    viol.append(("C02.equiv", "alpha", f"ACK/NAK written differ for stream {data.hex()} cuts={cuts}: real {wr_r} model {model.wr}"))
            if nt:
                sigs.add(hashlib.blake2b(data, digest_size=8).digest())
                for e in model.ev:
                    probes[e[0]] = probes.get(e[0], 0) + 1
            if len(viol) > 20:
                break
    return {"viol": viol[:20], "evals": evals, "sigs": sigs, "probes": probes, "vt": 0.0, "iters": 0,
            "sample": {"scenario": "alpha", "first": f"{ALPHA[first]:02x}", "L": L, "streams_with_events": len(sigs), "cases": evals}}


def gen_mutated(rng):
    out = bytearray()
    rx = 0
    for _ in range(rng.randrange(1, 8)):
        t = rng.random()
        if t < 0.5:
            frm = rng.choice((rx, rx, rx, (rx + 1) % 8, (rx - 1) % 8, rng.randrange(8)))
            if rng.random() < 0.08:
                # a long frame whose wire image is (almost) all reserved bytes: every one of them is stuffed, the frame is about twice as long
                # on the wire as its legal unstuffed length
                n_ = rng.choice((100, 128, 140, 200, 250))
                pl = bytes(R._RND[i] ^ rng.choice((0x7E, 0x7D, 0x11, 0x13, 0x18, 0x1A)) for i in range(n_))
            else:
                pl = bytes(rng.choice((0x7E, 0x7D, 0x11, 0x13, 0x18, 0x1A, rng.randrange(256))) for _ in range(rng.randrange(1, 12)))
            out += R.wire(R.f_data(frm, rng.randrange(2), rng.randrange(8), pl))
            if frm == rx:
                rx = (rx + 1) % 8
        elif t < 0.6:
            out += R.wire(bytes([0x80 | rng.randrange(32)]))
        elif t < 0.7:
            out += R.wire(bytes([0xA0 | rng.randrange(32)]))
        elif t < 0.8:
            out += R.wire(R.f_rstack(rng.randrange(256)))
            rx = 0
        elif t < 0.87:
            out += R.wire(R.f_error(rng.randrange(256)))
        elif t < 0.94:
            # a CRC-valid frame with ANY control byte >= 0xC0 (the RST / RSTACK / ERROR corner of the control-byte space and its undefined
            # neighbours) and one of the body shapes those frames have
            out += R.wire(bytes([0xC0 | rng.randrange(64)]) + rng.choice((b"", bytes([0x02, rng.randrange(256)]), bytes([0x02, 0x0B]), bytes([0x01, 0x51]))))
        else:
            out += R.wire(R.f_rst())
    n = rng.choice((0, 0, 1, 1, 2, 3))
    for _ in range(n):
        if not out:
            break
        i = rng.randrange(len(out))
        op = rng.random()
        if op < 0.35:
            out[i] ^= 1 << rng.randrange(8)
        elif op < 0.6:
            del out[i]
        elif op < 0.85:
            out.insert(i, rng.choice((0x7E, 0x7D, 0x11, 0x13, 0x18, 0x1A, rng.randrange(256))))
        else:
            out[i] = rng.choice((0x7E, 0x7D, 0x11, 0x13, 0x18, 0x1A))
    return bytes(out)


def run_mutated(params, tape):
    viol = []
    sigs = set()
    probes = {}
    n = params.get("n", 100)
    sample = None
    for k in range(n):
        rng = tape.sub("stream")
        data = gen_mutated(rng)
        if not data:
            continue
        ncuts = rng.choice((0, 0, 1, 2, 4, len(data)))
        cuts = sorted({rng.randrange(1, len(data)) for _ in range(ncuts)}) if len(data) > 1 else []
        if len(data) > 400:
            # long streams: no read longer than 400 bytes, so that the residue of one unterminated frame plus a read stays below the 1 KB bound
            # of the quantifier
            cs, last = [], 0
            for c in cuts + [len(data)]:
                while c - last > 400:
                    last += 400
                    cs.append(last)
                if c < len(data):
                    cs.append(c)
                last = c
            cuts = sorted(set(cs))
        err, model, host = e2.diff_stream(data, cuts)
        if err is not None:
            viol.append((err[0], "mutated", err[1]))
        if model.ev:
            sigs.add(hashlib.blake2b(data + repr(cuts[:8]).encode(), digest_size=8).digest())
            for e in model.ev:
                probes[e[0]] = probes.get(e[0], 0) + 1
        for fr in model.frames:
            if fr[0] == "bad":
                probes["bad_" + fr[1]] = probes.get("bad_" + fr[1], 0) + 1
        if R.CAN in data:
            probes["cancel_byte"] = probes.get("cancel_byte", 0) + 1
        if R.SUB in data:
            probes["substitute_byte"] = probes.get("substitute_byte", 0) + 1
        if R.XON in data or R.XOFF in data:
            probes["xon_xoff"] = probes.get("xon_xoff", 0) + 1
        if bytes([R.ESC, R.FLAG]) in data:
            probes["dangling_escape"] = probes.get("dangling_escape", 0) + 1
        if sample is None and model.ev:
            sample = {"scenario": "mutated", "stream": data.hex(), "cuts": cuts, "model_events": [list(map(lambda x: x.hex() if isinstance(x, bytes) else x, e)) for e in model.ev[:8]]}
    return {"viol": viol[:10], "evals": n, "sigs": sigs, "probes": probes, "vt": 0.0, "iters": 0, "sample": sample}


def run_flood(params, tape):
    rng = tape.sub("flood")
    total = int(params.get("mb", 1) * 1024 * 1024)
    sizes = (1, 7, 100, 1000, 1024, 4096, 65536)
    viol = []
    ev = []
    host = e2.SyncHost()
    x = rng.random()
    if x < 0.34:
        garbage_alphabet = bytes(b for b in range(256) if b not in R.RESERVED)
    elif x < 0.67:
        garbage_alphabet = bytes(b for b in range(256) if b != R.FLAG and b != R.CAN and b != R.SUB)
    else:
        # everything but the FLAG: SUBSTITUTE and CANCEL bytes arrive inside the unterminated garbage (the receiver is then in its
        # 'discard up to the next FLAG' state while more garbage keeps coming)
        garbage_alphabet = bytes(b for b in range(256) if b != R.FLAG)
    fed = 0
    calls = 0
    tracemalloc.start()
    base_after = None
    peak_first = None
    maxbuf = 0
    small_budget = 3000
    try:
        while fed < total:
            sz = rng.choice(sizes)
            if sz < 100:
                if small_budget <= 0:
                    sz = 4096
                else:
                    small_budget -= 1
            chunk = bytes(rng.choice(garbage_alphabet) for _ in range(min(sz, 256))) * (sz // 256 + 1)
            chunk = chunk[:sz]
            if not host.feed(chunk):
                viol.append(("C02.noraise", "flood", f"data_received raised {host.raised!r} during the flood"))
                break
            fed += sz
            calls += 1
            bl = len(host.proto._buffer)
            maxbuf = max(maxbuf, bl)
            if bl > ash.MAX_BUFFER_SIZE:
                viol.append(("C02.mem", "buffer", f"receive buffer holds {bl} bytes after a read of {sz} (bound {ash.MAX_BUFFER_SIZE})"))
                break
            chunk = None  # the harness's own copy of the read must not count as memory held by the receiver
            if peak_first is None and fed >= 256 * 1024:
                peak_first = tracemalloc.get_traced_memory()[0]
        chunk = None
        cur_end = tracemalloc.get_traced_memory()[0]
    finally:
        tracemalloc.stop()
    if peak_first is not None and cur_end - peak_first > 64 * 1024:
        viol.append(("C02.mem", "growth", f"memory held grew by {cur_end - peak_first} bytes between 256 KB and {fed} bytes of garbage"))
    if host.ev and not viol:
        # garbage may contain XON/XOFF but no FLAG: nothing may be delivered or written
        viol.append(("C02.nodeliver", "flood", f"flag-free garbage produced events {host.ev[:3]}"))
    # the first valid frame after the terminating FLAG is decoded
    host.ev.clear()
    host.feed(bytes([R.FLAG]))
    host.ev.clear()  # the garbage frame itself is NAKed or dropped
    host.feed(R.wire(R.f_data(0, 0, 0, b"after-flood")))
    up, wr = e2.split_streams(host.ev)
    if up != [("up", b"after-flood")] or wr != [("ack", 1)]:
        viol.append(("C02.mem", "recovery", f"first valid frame after the flood was not decoded: up={up} wr={wr}"))
    sig = hashlib.blake2b(repr((calls, fed, maxbuf)).encode(), digest_size=8).digest()
    return {"viol": viol, "evals": 1, "sigs": {sig}, "probes": {"flood_bytes": fed, "flood_calls": calls}, "vt": 0.0, "iters": 0,
            "sample": {"scenario": "flood", "bytes": fed, "reads": calls, "max_buffer": maxbuf,
                       "held_after_256k": peak_first, "held_at_end": cur_end}}


def run(scenario, params, tape, detail=False):
    if scenario == "soak":
        # the whole-stack soak (dst/soak.py); this check reports the clauses of its own property from it (nothing escapes a receive callback)
        from .. import soak

        return soak.run(params, tape, detail=detail)
    if scenario == "link":
        # the receiver embedded in a live link (engine E1: host sends in flight, faulty line, reads spanning frame boundaries),
        # compared with the reference receiver fed the same bytes; nothing may escape data_received there either
        from .. import e1

        return e1.run(params, tape, detail=detail)
    if scenario == "alpha":
        res = run_alpha(params, tape)
    elif scenario == "mutated":
        res = run_mutated(params, tape)
    elif scenario == "flood":
        res = run_flood(params, tape)
    else:
        raise ValueError(scenario)
    res["digest"] = hashlib.sha256(repr((sorted(res["sigs"]), res["viol"])).encode()).hexdigest()[:16]
    if detail:
        res["trace"] = [str(v) for v in res["viol"]]
    return res
