"""C05 - retry budget, timing window, silence after failure (engine E2, reaction-script mode)."""
import asyncio
import hashlib
import itertools

from .. import e2
from .. import refash as R

ID = "C05"
LEVEL = "fault_enumeration"
ENGINE = "E2 ashpeer"
TECHNIQUE = ("deterministic simulation in virtual time: complete enumeration of per-attempt peer reactions for one send, seeded reaction timing (incl. exact deadline ties) and queued sends"
             ' The live-link engine E1 (host frames in flight, windowed reference NCP, line faults, reads spanning frame boundaries) is a further seeded scenario of this check, with the reference receiver fed the same bytes.')
LEVEL_TEXT = ("every script of per-attempt peer reactions {covering ACK, stale ACK, NAK, silence, ERROR, RSTACK}^k, k<=5 (pruned when the send ends) "
              "is run for one send, alone and with queued sends, each at all four uniform reaction timings (immediately, mid-window, exactly at the "
              "ACK deadline, just after) and at seeded mixed timings; random longer scenarios beyond")
COMPONENTS = e2.COMPONENTS
RULE = ("sweep: all 1706 pruned reaction scripts x {0,2 queued sends} x {4 uniform timings + seeded mixed timings}; random: 2-8 sends with "
        "random reactions, piggy-backed DATA acknowledgements, and an RSTACK (or none) after a failure followed by a fresh send. "
        "Non-trivial = the script contains a reaction other than an immediate covering ACK; distinct = distinct (script, timing, queue) digests.")
ASSUMPTIONS = [
    "the exception type of a failed send is not constrained",
    "a covering ACK processed in the same loop iteration as the ACK timeout may be counted as a timeout (frame repeated or send failed)",
    "a failed send's reason is the ASH error code 0x51 for an exhausted budget and the frame's code for an ERROR frame",
]
PROBES = ["repeat_on_nak", "repeat_on_timeout", "fail_by_budget", "fail_by_error_frame", "retx_after_cover_same_instant",
          "fail_after_cover_same_instant", "rstack_midsend", "recovered_by_rstack", "host_reset_after_failure", "send_after_fail_refused", "piggyback_cover",
          "queued_sends_failed"]

REACT = ("A", "S", "N", "0", "E", "R")
TERMINAL = ("A", "E")
OFFSETS = ("imm", "mid", "dead", "after")


def scripts():
    out = []
    for j in range(0, 4):
        for pre in itertools.product(("S", "N", "0", "R"), repeat=j):
            for t in TERMINAL:
                out.append("".join(pre) + t)
    for pre in itertools.product(("S", "N", "0", "R"), repeat=4):
        for last in REACT:
            out.append("".join(pre) + last)
    return out


def plan(tier):
    sweeps = []
    for s in scripts():
        for q in (0, 2):
            for off in range(4):
                sweeps.append(("one", {"script": s, "queued": q, "off": [off] * 5}))
            nmix = 1 if tier == "quick" else 6
            for m in range(nmix):
                sweeps.append(("one", {"script": s, "queued": q, "off": None, "mix": m}, None))
    for s_ in ("SSSSS", "E", "NNNNN", "SNSNS", "SE"):
        for q in (0, 2):
            sweeps.append(("one", {"script": s_, "queued": q, "off": [1] * 5, "host_reset": True}))
    return {
        "sweeps": sweeps,
        "exhaustive": "all pruned per-attempt reaction scripts over {covering ACK, stale ACK, NAK, silence, ERROR, RSTACK}^k (k<=5) for one send, with 0 and 2 queued sends, at the four uniform reaction timings",
        "random": [("many", {}, 3), ("link", {}, 1)],
        "runs": 4000 if tier == "quick" else None,
        "budget_s": 60 if tier == "quick" else 900,
        "batch": 100,
    }


def run_script(params, tape, detail=False):
    rig = e2.ScriptRig(tape, sched=params.get("sched", True))
    loop, mon, proto = rig.loop, rig.mon, rig.proto
    many = params.get("many", False)
    viol = []
    probes = {}

    def probe(n):
        probes[n] = probes.get(n, 0) + 1

    if many:
        nsend = 2 + tape.draw(7, "nsend")
        script = None
    else:
        script = params["script"]
        nsend = 1 + params.get("queued", 0)
    offs = params.get("off")
    payloads = [b"P" + bytes([i]) + bytes([0x7E, 0x11, i]) for i in range(nsend + 3)]
    rig.payloads.update(payloads)
    attempt = {}  # payload -> attempts seen
    sends = {}  # i -> dict(start, end, outcome, exc)
    cover_void = set()
    cover_time = {}  # payload -> time a covering ack was delivered (first)
    peer_rx = [0]  # peer's own frame counter for piggy-backed DATA frames
    script_pos = [0]
    error_codes = (0x51, 0x00, 0x80, 0x02, 0x85)  # (0x00 is the falsy member of bellows' enumeration, 0x85 is not a named member)

    def next_reaction(frm, payload):
        k = attempt[payload]
        if payload in (payloads[nsend], payloads[nsend + 1]):
            return "A"  # the fresh send after a recovery is answered normally
        if script is not None:
            if payload == payloads[0] and k <= len(script):
                return script[k - 1]
            return "A"
        return ("A", "A", "A", "S", "N", "0", "0", "E", "R", "D")[tape.draw(10, "react")]

    def offset_kind(k):
        if offs is not None:
            return OFFSETS[offs[min(k - 1, len(offs) - 1)]]
        return OFFSETS[tape.draw(4, "off")]

    def on_data(fr):
        _, frm, retx, ack, payload = fr
        attempt[payload] = attempt.get(payload, 0) + 1
        k = attempt[payload]
        r = next_reaction(frm, payload)
        ok = "imm" if payload in (payloads[nsend], payloads[nsend + 1]) else offset_kind(k)
        # decided now, delivered relative to the host's ACK deadline, which exists once the sending task has yielded
        loop.external(loop.time(), react, frm, payload, r, ok, group="peer")

    def react(frm, payload, r, ok):
        dl = rig.ack_deadline()
        now = loop.time()
        if dl is None:
            at = now + 0.001
        elif ok == "imm":
            at = now + 0.001
        elif ok == "mid":
            at = now + (dl - now) / 2
        elif ok == "dead":
            at = dl
        else:
            at = dl + 0.001
        if r == "A":
            rig.peer_send(R.f_ack((frm + 1) % 8), at=at)
        elif r == "S":
            rig.peer_send(R.f_ack(frm), at=at)
        elif r == "N":
            rig.peer_send(R.f_nak(frm), at=at)
        elif r == "E":
            rig.peer_send(R.f_error(error_codes[(frm + nsend + (len(script) if script is not None else attempt.get(payload, 0))) % 5]), at=at)
        elif r == "R":
            rig.peer_send(R.f_rstack(R.RESET_SOFTWARE), at=at)
            peer_rx[0] = 0
            probe("rstack_midsend")
        elif r == "D":
            # piggy-backed acknowledgement on a DATA frame from the peer
            rig.peer_send(R.f_data(peer_rx[0], 0, (frm + 1) % 8, b"cb" + bytes([peer_rx[0]])), at=at)
            peer_rx[0] = (peer_rx[0] + 1) % 8
            probe("piggyback_cover")

    rig.on_data = on_data

    # track covers via the monitor's view of what reaches the host
    orig_read = mon.on_host_read

    def on_read(chunk):
        before = mon.outstanding
        frames = orig_read(chunk)
        if before is not None and mon.outstanding is None and mon.last_covered is not None:
            cover_time.setdefault(before[1], loop.time())
        return frames

    mon.on_host_read = on_read

    async def sender(i):
        sends[i] = {"start": loop.time(), "end": None, "outcome": None, "exc": None, "failed_before": mon.failed}
        try:
            await proto.send_data(payloads[i])
        except asyncio.CancelledError:
            sends[i].update(end=loop.time(), outcome="cancelled")
            raise
        except Exception as e:
            st = sends[i]["start"]
            # (a send may also end - raise - because an RSTACK arrived while it was outstanding: the session it belonged to is gone and the upper
            # layer is told of the reset; the statement allows a send to raise, this clause only rules out raising for no reason at all)
            told = mon.failed or any(n[2] in ("failure", "rstack") and n[0] >= st - 1e-9 for n in rig.upper.notes)
            sends[i].update(end=loop.time(), outcome="raised", exc=type(e).__name__, failed_at_raise=told)
        else:
            lc = mon.last_covered
            sends[i].update(end=loop.time(), outcome="ok", covered=(lc is not None and lc[1] == payloads[i]) or payloads[i] in cover_time)

    fresh = {}

    async def main():
        tasks = []
        for i in range(nsend):
            tasks.append(loop.create_task(sender(i), name=f"send-{i}"))
            if many:
                await asyncio.sleep((0.0, 0.0, 0.01, 1.0)[tape.draw(4, "gap")])
        await asyncio.gather(*tasks, return_exceptions=True)
        await asyncio.sleep(5.0)
        # phase 2: after a failure, an RSTACK (or none), then a fresh send
        if mon.failed and (params.get("host_reset") or (many and tape.draw(3, "host_reset?") == 2)):
            # the upper layer resets the link itself: RST written, a send issued BEFORE the RSTACK arrives (the NCP is still rebooting) is
            # refused without a write, the RSTACK then ends the episode and a fresh send completes
            probe("host_reset_after_failure")
            proto.send_reset()
            writes_before = len([1 for (tt, fr) in mon.tx_frames if fr[0] == "data"])
            i = nsend
            t = loop.create_task(sender(i))
            await asyncio.gather(t, return_exceptions=True)
            await asyncio.sleep(0.2)
            s0 = sends.get(i)
            nw = len([1 for (tt, fr) in mon.tx_frames if fr[0] == "data"]) - writes_before
            if s0 is None or s0["outcome"] != "raised" or nw:
                viol.append(("C05.fail", "send-between-rst-and-rstack", f"a send issued after the host's RST and before any RSTACK ended {s0 and s0['outcome']} and wrote {nw} DATA frame(s)"))
            rig.peer_send(R.f_rstack(R.RESET_SOFTWARE), delay=0.01)
            peer_rx[0] = 0
            await asyncio.sleep(0.1)
            fresh["recovered"] = True
            i = nsend + 1
            writes_before = len(mon.tx_frames)
            t = loop.create_task(sender(i))
            await asyncio.gather(t, return_exceptions=True)
            fresh["writes"] = len(mon.tx_frames) - writes_before
            fresh["i"] = i
        elif mon.failed:
            writes_before = len(mon.tx_frames)
            if tape.draw(2, "rstack?") or params.get("recover"):
                rig.peer_send(R.f_rstack(R.RESET_SOFTWARE), delay=0.01)
                peer_rx[0] = 0
                await asyncio.sleep(0.1)
                fresh["recovered"] = True
            i = nsend
            t = loop.create_task(sender(i))
            await asyncio.gather(t, return_exceptions=True)
            fresh["writes"] = len(mon.tx_frames) - writes_before
            fresh["i"] = i
        await asyncio.sleep(1.0)

    outcome, val = rig.run(main())
    viol.extend(mon.viol)
    if outcome != "done":
        viol.append(("C05.outcome", "sim-" + outcome, f"simulation ended with {outcome}: {val!r} (a send neither returned nor raised)"))

    # ---- oracle over the history
    for i, s in sorted(sends.items()):
        p = payloads[i]
        if s["outcome"] == "ok" and not s.get("covered"):
            viol.append(("C05.outcome", "returned-uncovered", f"send {i} returned at t={s['end']:.6f} although no acknowledgement covering its frame had been delivered"))
        if s["outcome"] == "raised":
            if not s.get("failed_at_raise"):
                viol.append(("C05.fail", "raise-without-notification", f"send {i} raised {s['exc']} at t={s['end']:.6f} but the upper layer was not told of a link failure"))
            ct = cover_time.get(p)
            voided = mon.probes.get("retx_after_cover_same_instant") or mon.probes.get("fail_after_cover_same_instant")
            fails_before = [n for n in rig.upper.notes if n[2] == "failure" and n[0] <= (ct if ct is not None else -1)]
            if ct is not None and ct < s["end"] - 1e-9 and not voided and not fails_before and not s["failed_before"]:
                viol.append(("C05.outcome", "ack-ignored", f"send {i} raised {s['exc']} at t={s['end']:.6f} although a covering acknowledgement was delivered at t={ct:.6f}"))
        if s["outcome"] is None:
            viol.append(("C05.outcome", "pending", f"send {i} neither returned nor raised"))
    fails = [n for n in rig.upper.notes if n[2] == "failure"]
    for (t, code, _w) in fails:
        # reason check: an ERROR frame is reported with its own code, an exhausted budget with 0x51
        errs = [fr[1] for (tt, fr) in mon.rx_frames if fr[0] == "error" and abs(tt - t) <= 1e-9]
        if code not in errs and code != R.ERROR_MAX_ACK_TIMEOUT:
            viol.append(("C05.fail", "reason", f"failure reported with code {code}; ERROR frames at that instant carried {errs}"))
    for (tt, fr) in mon.rx_frames:
        if fr[0] == "error" and fr[1] not in [c for (t, c, _w) in fails if abs(tt - t) <= 1e-9]:
            viol.append(("C05.fail", "reason", f"ERROR frame with code {fr[1]} at t={tt:.6f} was not reported with that code"))
    if fails:
        tf = fails[0][0]
        rstack_at_tf = any(fr[0] == "rstack" and abs(tt - tf) <= 1e-9 for tt, fr in mon.rx_frames)
        waiting = [i for i, s in sends.items() if i < nsend and s["start"] <= tf and (s["end"] is None or s["end"] >= tf - 1e-9)]
        late = [i for i in waiting if sends[i]["outcome"] != "raised" or abs(sends[i]["end"] - tf) > 1e-9]
        rst_after = any(fr[0] == "rstack" and tt >= tf for tt, fr in mon.rx_frames)
        if late and not rstack_at_tf and not (rst_after and many) and not any(sends[i]["outcome"] == "ok" and abs(sends[i]["end"] - tf) <= 1e-9 for i in late):
            viol.append(("C05.fail", "waiting-sends", f"sends {late} were waiting when the link failed at t={tf:.6f} but did not raise at that instant: {[ (sends[i]['outcome'], sends[i]['end']) for i in late]}"))
        elif len(waiting) > 1:
            probe("queued_sends_failed")
    if fresh:
        s = sends.get(fresh["i"])
        if fresh.get("recovered"):
            probe("recovered_by_rstack")
            if s is None or s["outcome"] != "ok":
                viol.append(("C05.fail", "no-recovery", f"after an RSTACK a fresh send did not complete: {s}"))
        else:
            probe("send_after_fail_refused")
            if s is None or s["outcome"] != "raised":
                viol.append(("C05.fail", "send-after-fail", f"a send issued in the FAILED state did not raise: {s}"))
            if fresh["writes"]:
                viol.append(("C05.fail", "write-after-fail", f"{fresh['writes']} frame(s) written by a send issued in the FAILED state"))
    if mon.error_unclaimed:
        viol.append(("C05.fail", "error-unreported", f"{mon.error_unclaimed} ERROR frame(s) handed to the host without a failure notification"))
    for k, v in mon.probes.items():
        probes[k] = probes.get(k, 0) + v
    for k, v in loop.sched_probes.items():
        if v:
            probes["sched." + k] = v
    desc = (script, params.get("queued", 0), tuple(offs) if offs else None, tuple(sorted((i, s["outcome"]) for i, s in sends.items())), len(mon.data_tx))
    sig = hashlib.blake2b(repr((desc, [(round(t, 4), f[0]) for t, f in mon.tx_frames[:40]])).encode(), digest_size=8).digest()
    nontrivial = many or script != "A"
    res = {"viol": viol, "faults": {}, "probes": probes, "vt": loop.time(), "iters": loop.iters, "sig": sig, "nontrivial": nontrivial,
           "digest": hashlib.sha256(repr((rig.log, sorted((i, tuple(sorted(s.items()))) for i, s in sends.items()))).encode()).hexdigest()[:16],
           "sample": {"script": script, "queued": params.get("queued", 0), "timing": [OFFSETS[o] for o in offs] if offs else "seeded",
                      "data_tx": [(round(t, 4), frm, retx) for (t, frm, retx, _p) in mon.data_tx[:12]],
                      "outcomes": {str(i): s["outcome"] for i, s in sends.items()}, "failure_notes": [(round(t, 4), c) for t, c, w in rig.upper.notes if w == "failure"]}}
    # count reaction kinds as 'faults fired'
    if script is not None:
        fk = {}
        for ch in script:
            fk["peer." + ch] = fk.get("peer." + ch, 0) + 1
        res["faults"] = fk
    if detail:
        res["trace"] = [repr(e) for e in rig.log[:300]]
    return res


def run(scenario, params, tape, detail=False):
    if scenario == "link":
        # the wire monitor's C05 clauses on a live link against the reference NCP (engine E1)
        from .. import e1

        return e1.run(params, tape, detail=detail)
    if scenario == "many":
        params = dict(params, many=True)
    return run_script(params, tape, detail)
