"""C13 - incoming NCP callbacks are translated faithfully for every protocol version (engine E3 with the application)."""
import asyncio
import hashlib
import struct

from .. import e3app
from .. import refezsp as Z
from ..line import FaultPlan

ID = "C13"
LEVEL = "exploration"
ENGINE = "E3 stack"
TECHNIQUE = ("deterministic simulation end to end: the reference NCP emits incomingMessageHandler / trustCenterJoinHandler frames built by hand-written byte-level "
             "encoders (pre-v14 and v14 field orders) over the simulated ASH link (optionally faulty) into the real stack with the real ControllerApplication; "
             "what reaches zigpy's packet_received / handle_join / handle_leave is compared field by field with the generated values"
             ' The whole-stack soak (dst/soak.py: one ControllerApplication object through several connect/traffic/failure/reconnect epochs) is a further seeded scenario of this check.')
LEVEL_TEXT = ("for every version 4..14: all 256 message-type values and all (update status, decision) pairs are swept completely with boundary field values; seeded runs "
              "draw APS fields, payload length 0..max, LQI, RSSI, addresses and link faults; exploration (field-value products are sampled)")
COMPONENTS = e3app.COMPONENTS
RULE = ("sweep: (version, message type 0..255) and (version, update status x decision, incl. undefined values); random: drawn field values, payload lengths and swarm line faults. "
        "Every callback is one evaluation; non-trivial = all; distinct = distinct (version, callback bytes).")
ASSUMPTIONS = [
    "callback frames are encoded by hand-written encoders in this module (independent of bellows' schema tables): pre-v14 order type, apsFrame, lqi, rssi, sender, bindingIndex, addressIndex, message; v14 order type, apsFrame, nwk, eui64, bindingIndex, addressIndex, lqi, rssi, timestamp, message",
    "a departure (DEVICE_LEFT) yields a leave whatever the policy decision says; a denied join yields nothing",
    "with link faults enabled the clauses are checked only while the ASH link has not failed",
]
PROBES = ["type.unicast", "type.multicast", "type.broadcast", "type.other_defined", "type.undefined", "join.allowed", "join.denied", "join.left", "join.left_denied",
          "payload.empty", "payload.max", "rssi.negative", "faulty_link", "xiaomi_prefix", "join.device_known", "message_from_nwk_of_last_join_callback", "started_by_zigpy_auto_form", "reconnect_other_version", "coordinator_member_of_message_group", "callback_under_sequence_pending_on_another_connection", "callback_under_sequence_left_pending_on_old_connection", "callback_during_reload", "callback_during_energy_scan", "callback_during_permit", "callback_during_add_endpoint"]

VERSIONS = list(range(4, 15))
UNICAST, MULTICAST, BROADCAST = 0, 2, 4
DEVICE_LEFT, DENY_JOIN = 2, 2


def enc_aps(profile, cluster, sep, dep, options, group, seq):
    return struct.pack("<HHBBHHB", profile, cluster, sep, dep, options, group, seq)


def enc_incoming(V, seq, mtype, aps, lqi, rssi, sender, binding, addridx, msg, eui=bytes(8), timestamp=0):
    fid = 0x45
    hdr = Z.header(V, seq, fid, Z.FC_ASYNC_CB)
    if V >= 14:
        body = bytes([mtype]) + aps + struct.pack("<H", sender) + eui + bytes([binding, addridx, lqi]) + struct.pack("<b", rssi) + struct.pack("<I", timestamp) + bytes([len(msg)]) + msg
    else:
        body = bytes([mtype]) + aps + bytes([lqi]) + struct.pack("<b", rssi) + struct.pack("<H", sender) + bytes([binding, addridx, len(msg)]) + msg
    return hdr + body


def enc_tcjoin(V, seq, nwk, eui, status, decision, parent):
    return Z.header(V, seq, 0x24, Z.FC_ASYNC_CB) + struct.pack("<H", nwk) + eui + bytes([status, decision]) + struct.pack("<H", parent)


def plan(tier):
    sweeps = []
    for V in VERSIONS:
        sweeps.append(("types", {"V": V, "sched": False}))
        sweeps.append(("joins", {"V": V, "sched": False}))
    for V in VERSIONS:
        sweeps.append(("busy", {"V": V, "sched": False}))
    for V in VERSIONS:
        sweeps.append(("autoform", {"V": V, "sched": False}))
    for V, VB in ((8, 8), (13, 14), (4, 7), (14, 14)):
        sweeps.append(("twin", {"V": V, "VB": VB, "sched": False}))
    for V, then in ((13, [14]), (14, [13]), (14, [8, 14]), (4, [14, 7]), (8, [9]), (12, [14, 12])):
        sweeps.append(("reconnect", {"V": V, "then": then, "sched": False}))
    return {
        "sweeps": sweeps,
        "exhaustive": "versions 4..14 x all 256 message-type values (boundary field values) and all update-status x decision pairs (defined values and two undefined ones)",
        "random": [("random", {}, 1), ("soak", {}, 1)],
        "runs": 800 if tier == "quick" else None,
        "budget_s": 60 if tier == "quick" else 900,
        "batch": 8,
        "sweep_batch": 1,
    }


def run(scenario, params, tape, detail=False):
    if scenario == "soak":
        # the whole-stack soak (dst/soak.py): one application object through several connection epochs with traffic, failures and
        # reconnects; this check reports the clauses of its own property from it
        from .. import soak

        return soak.run(params, tape, detail=detail)
    V = params["V"] if "V" in params else VERSIONS[tape.draw(len(VERSIONS), "V")]
    faults = scenario == "random" and tape.draw(3, "faults?") == 2
    plan_ = FaultPlan.swarm(tape) if faults else None
    if plan_ is not None:
        plan_.on = False
    rig = e3app.AppRig(tape, version=V, sched=params.get("sched", True), plan=plan_, fast_line=not faults, chunking=faults)
    rig.line.ties = False
    loop, ncp = rig.loop, rig.ncp
    if scenario != "autoform":
        ncp.preform()
    viol, probes = [], {}
    sigs = set()
    nev = [0]
    samples = []

    def probe(n, k=1):
        probes[n] = probes.get(n, 0) + k

    cur = {"V": V}

    def link_ok():
        return rig.ncp_ash.failed is None and not any(w == "failure" for (_t, _c, w) in rig.reset_notes)

    async def settle():
        await asyncio.sleep(0.3 if not faults else 25.0)

    async def incoming(app, mtype, aps_fields, lqi, rssi, sender, binding, addridx, msg, eui=bytes(8)):
        nev[0] += 1
        V = cur["V"]
        frame = enc_incoming(V, ncp.last_rsp_seq, mtype, enc_aps(*aps_fields), lqi, rssi, sender, binding, addridx, msg, eui)
        n0 = len(rig.packets)
        ncp.emit(frame, 0.0, "cb")
        await settle()
        got = rig.packets[n0:]
        profile, cluster, sep, dep, options, group, seq = aps_fields
        tag = f"v{V} incomingMessageHandler type={mtype} aps={aps_fields} lqi={lqi} rssi={rssi} sender={sender:#06x} len={len(msg)}"
        sigs.add(hashlib.blake2b(frame[1:]).digest()[:8])
        if not link_ok():
            return
        if mtype in (UNICAST, MULTICAST, BROADCAST):
            probe({UNICAST: "type.unicast", MULTICAST: "type.multicast", BROADCAST: "type.broadcast"}[mtype])
            if len(got) != 1:
                viol.append(("C13.one", "count", f"{tag}: {len(got)} packets handed to zigpy (expected exactly one)"))
                return
            p = got[0][1]
            # own address as the NCP knows it (not what the application object holds at this instant: that is part of what is being checked)
            want_dst = {UNICAST: ("NWK", int(ncp.node_id)), MULTICAST: ("Group", group), BROADCAST: ("Broadcast", 0xFFFC)}[mtype]
            have = {"src_mode": p.src.addr_mode.name, "src": int(p.src.address), "src_ep": p.src_ep, "dst_mode": p.dst.addr_mode.name, "dst": int(p.dst.address),
                    "dst_ep": p.dst_ep, "profile": p.profile_id, "cluster": p.cluster_id, "tsn": p.tsn, "data": bytes(p.data.serialize()), "lqi": p.lqi, "rssi": p.rssi}
            want = {"src_mode": "NWK", "src": sender, "src_ep": sep, "dst_mode": want_dst[0], "dst": want_dst[1], "dst_ep": dep, "profile": profile, "cluster": cluster,
                    "tsn": seq, "data": msg, "lqi": lqi, "rssi": rssi}
            bad = {k: (have[k], want[k]) for k in want if have[k] != want[k]}
            if bad:
                viol.append(("C13.one", "field-" + sorted(bad)[0], f"{tag}: packet differs from the callback (got, expected): {bad}"))
        else:
            probe("type.other_defined" if mtype <= 6 else "type.undefined")
            if got:
                viol.append(("C13.one", "other-type-delivered", f"{tag}: {len(got)} packet(s) handed to zigpy for a message type that is neither unicast, multicast nor broadcast"))
        if len(samples) < 2:
            samples.append({"V": V, "callback": "incomingMessageHandler", "frame": frame.hex(), "packets": len(got)})

    async def tcjoin(app, nwk, eui, status, decision, parent):
        nev[0] += 1
        V = cur["V"]
        frame = enc_tcjoin(V, ncp.last_rsp_seq, nwk, eui, status, decision, parent)
        j0, l0 = len(rig.joins), len(rig.leaves)
        ncp.emit(frame, 0.0, "cb")
        await settle()
        joins, leaves = rig.joins[j0:], rig.leaves[l0:]
        tag = f"v{V} trustCenterJoinHandler nwk={nwk:#06x} eui={eui.hex()} status={status} decision={decision} parent={parent:#06x}"
        sigs.add(hashlib.blake2b(frame[1:]).digest()[:8])
        if not link_ok():
            return
        if status == DEVICE_LEFT:
            probe("join.left_denied" if decision == DENY_JOIN else "join.left")
            want_j, want_l = [], [(nwk, eui)]
        elif decision == DENY_JOIN:
            probe("join.denied")
            want_j, want_l = [], []
        else:
            probe("join.allowed")
            want_j, want_l = [(nwk, eui, parent)], []
        if [(a, b, c) for (_t, a, b, c) in joins] != want_j:
            viol.append(("C13.join", "join", f"{tag}: handle_join calls {[(hex(a), b.hex(), hex(c)) for (_t, a, b, c) in joins]}, expected {[(hex(a), b.hex(), hex(c)) for (a, b, c) in want_j]}"))
        if [(a, b) for (_t, a, b) in leaves] != want_l:
            viol.append(("C13.join", "leave", f"{tag}: handle_leave calls {[(hex(a), b.hex()) for (_t, a, b) in leaves]}, expected {[(hex(a), b.hex()) for (a, b) in want_l]}"))
        if len(samples) < 2:
            samples.append({"V": V, "callback": "trustCenterJoinHandler", "frame": frame.hex(), "joins": len(joins), "leaves": len(leaves)})

    async def start_autoform():
        """A stick that has never been part of a network, brought up the way zigpy does it on a first start: connect() + zigpy's own
        initialize(auto_form=True) - no channel configured (zigpy's default), so zigpy starts an ephemeral network, scans, writes the final
        settings and starts the network again, all on ONE connection."""
        import bellows.zigbee.application as appmod
        import zigpy.config as zc
        import zigpy.types as zt

        from .c14 import OsShim

        appmod.os = OsShim(tape)
        nwk_cfg = {zc.CONF_NWK_PAN_ID: 0x1A2B, zc.CONF_NWK_EXTENDED_PAN_ID: zt.ExtendedPanId.convert("11:22:33:44:55:66:77:88"), zc.CONF_NWK_KEY: zt.KeyData(bytes(range(16)))}
        app = rig.make_app(**{zc.CONF_NWK: nwk_cfg})
        ncp.auto_confirm = True
        await app.connect()
        rig.ezsp = app._ezsp
        await app.initialize(auto_form=True)
        probe("started_by_zigpy_auto_form")
        return app

    async def main():
        app = await (start_autoform() if scenario == "autoform" else rig.start_app())
        if faults:
            plan_.on = True
            probe("faulty_link")
        if scenario == "types":
            # the coordinator is itself a member of some of the groups the messages below are addressed to (so a multicast LOOPBACK - type 3 -
            # for a subscribed group is among them): membership changes nothing about which message types yield a packet
            for g in (0x1234 + 3, 0x1234 + 2, 0x1234 + 7):
                await app._multicast.subscribe(g)
            probe("coordinator_member_of_message_group")
            for mtype in range(256):
                k = mtype % 4
                aps = (0x0104, 0x0006 + mtype, 1 + k, 1, 0x0140, 0x1234 + mtype, mtype ^ 0x5A)
                msg = (b"", b"\x01", bytes(range(40)), bytes([0x7E, 0x11, 0x13, 0x1A] * 20))[k]
                await incoming(app, mtype, aps, (0, 255, 1, 128)[k], (-128, 127, 0, -1)[k], (0x0001, 0xFFF7, 0xABCD, 0x0000)[k], k, 0xFF - k, msg)
        elif scenario == "autoform":
            for k, mtype in enumerate((UNICAST, MULTICAST, BROADCAST, 1, UNICAST)):
                aps = (0x0104, 0x0006 + k, 1 + k, 1, 0x0140, 0x1234 + k, 0x21 + k)
                await incoming(app, mtype, aps, 200 + k, -40 - k, 0x4000 + k, k, 0xFF - k, (b"", b"\x01\x02", bytes(range(30)), b"\x7e\x11", b"z")[k])
            await tcjoin(app, 0x1234, bytes([1, 2, 3, 4, 5, 6, 7, 8]), 0, 0, 0x0000)
            await tcjoin(app, 0x1234, bytes([1, 2, 3, 4, 5, 6, 7, 8]), DEVICE_LEFT, 0, 0x0000)
        elif scenario == "twin":
            # a second radio in the same process (its own EZSP connection) has a command pending under sequence S when THIS connection's NCP
            # stamps its callbacks with S: one connection's bookkeeping never swallows another connection's frames
            import bellows.uart
            import zigpy.serial

            from .. import e3

            rig_b = e3.StackRig(tape, version=params["VB"], loop=loop, fast_line=True, chunking=False)
            zigpy.serial.create_serial_connection = rig_b._create_serial_connection
            bellows.uart.zigpy.serial.create_serial_connection = rig_b._create_serial_connection
            ez_b = await rig_b.bringup()
            hold = {}

            def deliver_b(req, payload):
                if req.name == "getEui64":
                    hold["seq"] = req.seq  # never answered
                    return
                req.nrsp += 1
                rig_b.ncp.emit(payload, 0.0, "rsp", req.seq)

            rig_b.ncp.deliver = deliver_b
            # this connection's NCP last answered sequence S (its callbacks will carry S); the other connection then issues a command that
            # happens to get the same sequence number S and stays pending
            want = ncp.last_rsp_seq
            for _ in range(300):
                if ez_b._protocol._seq == want:
                    break
                await ez_b.nop()
            pending_b = loop.create_task(ez_b.getEui64())
            await asyncio.sleep(0.05)
            if hold.get("seq") == ncp.last_rsp_seq:
                probe("callback_under_sequence_pending_on_another_connection")
            for k, mtype in enumerate((UNICAST, MULTICAST, BROADCAST)):
                aps = (0x0104, 0x0006 + k, 1 + k, 1, 0x0140, 0x1234 + k, 0x21 + k)
                await incoming(app, mtype, aps, 200 + k, -40 - k, 0x4000 + k, k, 0xFF - k, (b"", b"\x01\x02", bytes(range(30)))[k])
            await tcjoin(app, 0x1234, bytes([1, 2, 3, 4, 5, 6, 7, 8]), 0, 0, 0x0000)
            await tcjoin(app, 0x1234, bytes([1, 2, 3, 4, 5, 6, 7, 8]), DEVICE_LEFT, 0, 0x0000)
            pending_b.cancel()
            ez_b.close()
            await asyncio.sleep(0.1)
        elif scenario == "reconnect":
            # one application object, two sticks: callbacks on an NCP of version V, then disconnect and connect again to an NCP of version V2
            # (other side of the v14 field-order boundary included); translation must follow the version of the current connection
            async def batch():
                for k, mtype in enumerate((UNICAST, MULTICAST, BROADCAST, 1, UNICAST)):
                    aps = (0x0104, 0x0006 + k, 1 + k, 1, 0x0140, 0x1234 + k, 0x21 + k)
                    await incoming(app, mtype, aps, 200 + k, -40 - k, 0x4000 + k, k, 0xFF - k, (b"", b"\x01\x02", bytes(range(30)), b"\x7e\x11", b"z")[k])
                await tcjoin(app, 0x1234, bytes([1, 2, 3, 4, 5, 6, 7, 8]), 0, 0, 0x0000)
                await tcjoin(app, 0x1234, bytes([1, 2, 3, 4, 5, 6, 7, 8]), DEVICE_LEFT, 0, 0x0000)
                await incoming(app, UNICAST, (0x0104, 0x0006, 1, 1, 0x0140, 0, 0x77), 180, -60, 0x1234, 0, 0xFF, b"late")

            await batch()
            for V2 in params["then"]:
                probe("reconnect_other_version")
                # the old connection ends with a command that was never answered (its registration under sequence S stays behind in that
                # connection's protocol handler) ...
                drop = {"on": True, "seq": None}
                orig_deliver = ncp.deliver

                def deliver(req, payload, drop=drop, orig_deliver=orig_deliver):
                    if drop["on"] and req.name == "getEui64":
                        drop["on"], drop["seq"] = False, req.seq
                        return
                    orig_deliver(req, payload)

                ncp.deliver = deliver
                try:
                    await app._ezsp.getEui64()
                except Exception:  # noqa: BLE001 - the 10 s command timeout
                    pass
                ncp.deliver = orig_deliver
                await app.disconnect()
                await asyncio.sleep(1.0)
                ncp.set_version(V2)
                cur["V"] = V2
                ncp.auto_confirm = True
                await app.connect()
                rig.ezsp = app._ezsp
                await app.start_network()
                # ... and on the new connection the callbacks arrive stamped with that very sequence number (the NCP stamps a callback with the
                # sequence of the last response it sent): nothing of the old connection may swallow them
                for _ in range(300):
                    if drop["seq"] is None or ncp.last_rsp_seq == drop["seq"]:
                        probe("callback_under_sequence_left_pending_on_old_connection")
                        break
                    await app._ezsp.nop()
                await batch()
        elif scenario == "busy":
            # callbacks arriving while the application itself is in the middle of something: re-reading its network information (zigpy's
            # periodic backup does this on a running network) - one callback after the k-th command of that operation, for every k
            import zigpy.types as zt

            ncp.auto_confirm = True
            ops = (("reload", lambda: app.load_network_info(load_devices=False)), ("reload+devices", lambda: app.load_network_info(load_devices=True)),
                   ("energy_scan", lambda: app.energy_scan(zt.Channels.from_channel_list([11, 15, 20]), 1, 1)), ("permit", lambda: app.permit_ncp(30)),
                   ("add_endpoint+multicast", lambda: app._multicast.subscribe(0x4321 + nev[0])))
            for opname, make_op in ops:
                k = 0
                while k < 60:
                    base = len(ncp.requests)
                    op = loop.create_task(make_op(), name=opname)
                    while len(ncp.requests) < base + k and not op.done():
                        await asyncio.sleep(0.0002)
                    if op.done():
                        op.result()
                        break
                    probe("callback_during_" + opname.split("+")[0])
                    mtype = (UNICAST, MULTICAST, BROADCAST)[k % 3] if k % 2 else UNICAST
                    aps = (0x0104, 0x0400 + k, 1 + k % 3, 1, 0x0140, 0x2200 + k, 0x30 + k)
                    await incoming(app, mtype, aps, 100 + k, -30 - k, 0x6000 + k, 0, 0xFF, bytes([k, 1, 2]))
                    await op
                    k += 1
        elif scenario == "joins":
            import zigpy.types as zt

            for status in (0, 1, 2, 3, 4, 5, 7, 6, 0x55):
                for decision in (0, 1, 2, 3, 9):
                    for eui in (bytes([1, 2, 3, 4, 5, 6, 7, 8]), bytes([0, 0, 0, 0, 0, 0x8C, 0xCF, 0x04])):
                        if eui[5:] == bytes([0x8C, 0xCF, 0x04]):
                            probe("xiaomi_prefix")
                        await tcjoin(app, 0x1000 + status * 16 + decision, eui, status, decision, 0x2000 + decision)
                        if eui[0] == 1:
                            # ... and straight afterwards a message from that very short address (frames still in flight when a device leaves, a
                            # device that talks right after joining, a denied device that tries anyway): one callback, one packet
                            probe("message_from_nwk_of_last_join_callback")
                            k = status + decision
                            await incoming(app, (UNICAST, MULTICAST, BROADCAST)[k % 3], (0x0104, 0x0500 + k, 1, 1, 0x0140, 0x3300 + k, 0x40 + k), 90 + k, max(-128, -50 - k),
                                           0x1000 + status * 16 + decision, 0, 0xFF, bytes([k, 7]))
                    # a device the application already knows (an earlier join, or loaded from its database): under the same short address and
                    # under another one - a (re)join callback is translated all the same
                    known = bytes([0x4B, status, decision, 9, 9, 9, 9, 9])
                    nwk_known = 0x5000 + status * 16 + decision
                    app.add_device(zt.EUI64.deserialize(known)[0], nwk_known)
                    probe("join.device_known")
                    await tcjoin(app, nwk_known, known, status, decision, 0x2100 + decision)
                    await tcjoin(app, nwk_known ^ 0x0F00, known, status, decision, 0x2200 + decision)
        else:
            n = 5 + tape.draw(40, "n")
            pool = [0x2001, 0x2002, 0x2003]  # a few devices that join, leave and talk (identities recur across callbacks)
            for _ in range(n):
                if tape.draw(4, "which") == 0:
                    eui = tape.rand_bytes(8, "eui")
                    nwk_j = pool[tape.draw(3, "poolj")] if tape.draw(2, "pool?") else tape.draw(0xFFF8, "nwk")
                    await tcjoin(app, nwk_j, eui, (0, 1, 2, 3, 4, 5, 7, 6)[tape.draw(8, "st")], tape.draw(5, "dec"), tape.draw(0xFFF8, "parent"))
                else:
                    mtype = (0, 0, 2, 4, 1, 3, 5, 6, 7, 200)[tape.draw(10, "mtype")]
                    L = (0, 1, 2, 10, 60, 82, 100, 127)[tape.draw(8, "len")]
                    if L == 0:
                        probe("payload.empty")
                    if L >= 100:
                        probe("payload.max")
                    msg = tape.rand_bytes(L, "msg") if L <= 10 else bytes((tape.draw(256, "m0") + i * 7) & 0xFF for i in range(L))
                    def u16(label):
                        c = tape.draw(12, label + ".k")
                        special = (0x0000, 0x0001, 0x0006, 0x0013, 0x0019, 0x0104, 0x8000, 0x8001, 0xFFFF, 0x7FFF)
                        return special[c] if c < len(special) else tape.draw(65536, label)

                    def u8(label):
                        c = tape.draw(8, label + ".k")
                        return (0, 1, 242, 255, 127, 128)[c] if c < 6 else tape.draw(256, label)

                    aps = (u16("prof"), u16("clus"), u8("sep"), u8("dep"), u16("opt"), u16("grp"), u8("seq"))
                    rssi = tape.draw(256, "rssi") - 128
                    if rssi < 0:
                        probe("rssi.negative")
                    sender_r = pool[tape.draw(3, "pools")] if tape.draw(2, "spool?") else tape.draw(0xFFF8, "sender")
                    await incoming(app, mtype, aps, tape.draw(256, "lqi"), rssi, sender_r, tape.draw(256, "bind"), tape.draw(256, "aidx"), msg,
                                   tape.rand_bytes(8, "eui"))

    outcome, val = rig.run(main())
    if outcome != "done":
        viol.append(("C13.one", "sim-" + outcome, f"v{V}: simulation ended with {outcome}: {val!r}"))
    seen, uniq = set(), []
    for v in viol:
        if (v[0], v[1]) not in seen:
            seen.add((v[0], v[1]))
            uniq.append(v)
    fired = dict(plan_.fired) if faults else {}
    res = {"viol": uniq, "faults": fired, "probes": probes, "vt": loop.time(), "iters": loop.iters, "sigs": sigs, "evals": max(1, nev[0]),
           "digest": hashlib.sha256(repr((rig.log[-300:], loop.time(), loop.iters)).encode()).hexdigest()[:16],
           "sample": samples[0] if samples else {"V": V, "callbacks": nev[0]}}
    if detail:
        res["trace"] = [repr(e) for e in rig.log[-200:]]
    return res
