"""C16 - config write never shrinks a table, honours overrides, sets the buffer count last (engine E3)."""
import hashlib
import importlib

import bellows.types as t

from .. import e3

ID = "C16"
LEVEL = "exploration"
ENGINE = "E3 stack"
TECHNIQUE = ("deterministic simulation: EZSP.write_config on the real stack against the reference NCP's configuration table; NCP-reported current "
             "values, user override sets (from each version's schema) and per-setting rejections are drawn from a seeded tape; a small grid is swept "
             "completely; the write sequence the NCP sees is judged by an independent rule set")
LEVEL_TEXT = ("for every version 4..16: complete sweep of {no override, each single-setting override (value / disabled)} x uniform current value "
              "{unreadable, 0, 11, 12, 13, 200} plus seeded runs with independent per-setting current values, 0-5 overrides and random rejections; "
              "exploration (the product space is sampled)")
COMPONENTS = e3.COMPONENTS
RULE = ("sweep: (version, current-value level, single override); random: per-setting current values, 0-5 overrides (values valid for the version's schema, or None), "
        "rejected settings. Non-trivial = at least one override, rejection, unreadable or above-default current value; distinct = distinct (version, current "
        "values of the written ids, overrides, rejections) digests.")
ASSUMPTIONS = [
    "capacity settings are those named *_TABLE_SIZE plus CONFIG_MAX_END_DEVICE_CHILDREN, CONFIG_SUPPORTED_NETWORKS and CONFIG_TRUST_CENTER_ADDRESS_CACHE_SIZE (independent list)",
    "a value injected by a version's configuration schema default (not given by the user) counts as one of bellows' own defaults",
    "valid override values are those the version's own voluptuous schema accepts",
    "a rejected write still counts as 'written' for the user/once clauses; C16.continue compares against a second run without rejections",
]
PROBES = ["override.value", "override.disabled", "override.nondefault_setting", "override.disable_nondefault", "current.unreadable", "current.above_default",
          "rejected_write", "rejected_value_write", "plain_write_after_overrides", "response_later_than_command_timeout", "write_config_failed_on_slow_response", "reject_status.INVALID_CALL", "reject_status.NO_BUFFERS", "reject_status.BAD_ARGUMENT", "reject_status.INVALID_ID", "buffer_count_written", "version_gt_14", "schema_default_injected"]

VERSIONS = list(range(4, 17))
LEVELS = ("unreadable", 0, 11, 12, 13, 200)
CAP_EXTRA = {"CONFIG_MAX_END_DEVICE_CHILDREN", "CONFIG_SUPPORTED_NETWORKS", "CONFIG_TRUST_CENTER_ADDRESS_CACHE_SIZE"}
PBC = int(t.EzspConfigId.CONFIG_PACKET_BUFFER_COUNT)
CANDIDATES = (0, 1, 2, 3, 5, 8, 12, 14, 16, 20, 32, 64, 100, 200, 255, 1000)


def is_capacity(name):
    return name.endswith("_TABLE_SIZE") or name in CAP_EXTRA


def schema_of(V):
    return importlib.import_module(f"bellows.ezsp.v{min(V, 14)}.config").EZSP_SCHEMA


def valid_values(V, name):
    import voluptuous as vol

    sch = schema_of(V)
    key = [k for k in sch if str(k) == name][0]
    out = []
    for v in CANDIDATES:
        try:
            vol.Schema({vol.Optional(name): sch[key]})({name: v})
            out.append(v)
        except vol.Invalid:
            pass
    return out


def plan(tier):
    sweeps = []
    for V in VERSIONS:
        names = [str(k) for k in schema_of(V)]
        for lvl in range(len(LEVELS)):
            sweeps.append(("grid", {"V": V, "level": lvl, "names": [], "sched": False}))
            step = 1 if tier == "thorough" else 3
            for i in range(0, len(names), 8):
                sweeps.append(("grid", {"V": V, "level": lvl, "names": names[i:i + 8], "step": step, "sched": False}))
        for st0 in (0, 2):
            sweeps.append(("rejects", {"V": V, "st0": st0, "sched": False}))
        for k in range(4):
            sweeps.append(("slow", {"V": V, "k": k, "sched": False}))
    return {
        "sweeps": sweeps,
        "exhaustive": "every written setting rejected in turn with each of four rejection statuses; versions 4..16 x uniform current value {unreadable, 0, 11, 12, 13, 200} x {no override; every single-setting override: disabled, and each schema-valid candidate value (every third one in quick)}",
        "random": [("random", {}, 1)],
        "runs": 2500 if tier == "quick" else None,
        "budget_s": 60 if tier == "quick" else 900,
        "batch": 25,
        "sweep_batch": 4,
    }


def run(scenario, params, tape, detail=False):
    V = params["V"] if "V" in params else VERSIONS[tape.draw(len(VERSIONS), "V")]
    rig = e3.StackRig(tape, version=V, sched=params.get("sched", True), fast_line=True, chunking=False, max_iters=2_000_000)
    loop, ncp = rig.loop, rig.ncp
    viol, probes = [], {}
    sigs = set()
    nev = [0]
    samples = []
    sch = schema_of(V)
    names = [str(k) for k in sch]
    id_of = {n: int(t.EzspConfigId[n]) for n in names}
    name_of = {int(e): e.name for e in t.EzspConfigId}
    schema_defaults = {}
    import voluptuous as vol

    for k in sch:
        if not isinstance(k.default, type(vol.UNDEFINED)):
            schema_defaults[str(k)] = k.default()
    if V > 14:
        probes["version_gt_14"] = 1

    def probe(n, k=1):
        probes[n] = probes.get(n, 0) + k

    last = {}
    REJ = ("INVALID_CALL", "NO_BUFFERS", "BAD_ARGUMENT", "INVALID_ID")  # EzspStatus ERROR_INVALID_CALL / OUT_OF_MEMORY / INVALID_VALUE / INVALID_ID

    slow = {"ids": set(), "cmds": ()}

    def deliver(req, payload):
        # a setting whose response is slower than the 10 s command timeout (the NCP applied it; resizing tables takes its time)
        d = 0.0
        if req.name in slow["cmds"] and slow["ids"]:
            a = req.args or {}
            cid = a.get("configId", a.get("valueId"))
            if cid is not None and int(cid) in slow["ids"]:
                d = 10.5
                probe("response_later_than_command_timeout")
        req.nrsp += 1
        ncp.emit(payload, d, "rsp", req.seq)

    ncp.deliver = deliver

    async def one_slow(ez, current, i, cmds, label):
        """the response to one command about setting i arrives after the command timeout: the write may fail, but no setting is sent twice"""
        nev[0] += 1
        ncp.config.clear()
        ncp.values.clear()
        ncp.write_log.clear()
        ncp.config_writes.clear()
        ncp.config_default = dict(current)
        ncp.config_unreadable = set()
        ncp.config_reject = set()
        ncp.value_reject = set()
        slow["ids"], slow["cmds"] = {i}, cmds
        raised = None
        try:
            await ez.write_config({})
        except Exception as e:  # noqa: BLE001
            raised = e
        slow["ids"] = set()
        import asyncio

        await asyncio.sleep(11.0)  # let the late response arrive before the next evaluation
        cfg = [(j, v) for (k, j, v, st) in ncp.write_log if k == "config"]
        ids = [j for (j, v) in cfg]
        dup = sorted({j for j in ids if ids.count(j) > 1})
        if dup:
            viol.append(("C16.once", "twice-after-slow-response", f"v{V} {label}: the response to {'/'.join(cmds)} for {name_of.get(i, i)} took 10.5 s (applied by the NCP); "
                         f"settings {[name_of.get(j, j) for j in dup]} were written more than once: {cfg} (write_config {'raised ' + repr(raised) if raised else 'returned'})"))
        if raised is not None:
            probe("write_config_failed_on_slow_response")
        sigs.add(hashlib.blake2b(repr((V, "slow", i, cmds)).encode(), digest_size=8).digest())

    async def one(ez, current, overrides, reject, label, vreject=()):
        """current: {id: value|'unreadable'}; overrides: {name: value|None}; reject: set of ids"""
        nev[0] += 1

        def setup(rej, vrej=()):
            ncp.config.clear()
            ncp.values.clear()
            ncp.write_log.clear()
            ncp.config_writes.clear()
            ncp.config_default = {i: v for i, v in current.items() if v != "unreadable"}
            ncp.config_unreadable = {i for i, v in current.items() if v == "unreadable"}
            ncp.config_reject = dict(rej) if isinstance(rej, dict) else set(rej)
            ncp.value_reject = set(vrej)

        setup(reject, vreject)
        raised = None
        try:
            await ez.write_config(dict(overrides))
        except Exception as e:
            raised = e
        log = list(ncp.write_log)
        cfg = [(i, v, st) for (k, i, v, st) in log if k == "config"]
        last["cfg"] = cfg
        last["vals"] = [i for (k, i, v, st) in log if k == "value"]
        where = f"v{V} {label} overrides={overrides} rejected={sorted(name_of.get(i, i) for i in reject)}: "
        ids = [i for (i, v, st) in cfg]
        # once
        dup = sorted({i for i in ids if ids.count(i) > 1})
        if dup:
            viol.append(("C16.once", "twice", where + f"settings {[name_of.get(i, i) for i in dup]} written more than once: {cfg}"))
        vids = [i for (k, i, v, st) in log if k == "value"]
        if len(vids) != len(set(vids)):
            viol.append(("C16.once", "value-twice", where + f"values written more than once: {vids}"))
        # user / disabled
        unwritten = []
        for n, val in overrides.items():
            i = id_of[n]
            w = [v for (j, v, st) in cfg if j == i]
            if val is None:
                probe("override.disabled")
                if w:
                    viol.append(("C16.disabled", "written", where + f"{n} was disabled by the user but written with {w}"))
            else:
                probe("override.value")
                if w != [val]:
                    unwritten.append(n)
                    if raised is None:
                        cur = current.get(i, 8)
                        viol.append(("C16.user", "not-written-exactly", where + f"user value {n}={val} (NCP currently reports {cur}): writes for it were {w}"))
        # grow-only for bellows' own defaults
        for (i, v, st) in cfg:
            n = name_of.get(i, str(i))
            if n in overrides:
                continue
            cur = current.get(i, 8)
            if is_capacity(n) and cur != "unreadable" and v < cur:
                key = "schema-default-shrinks" if n in schema_defaults else "default-shrinks"
                viol.append(("C16.grow", key, where + f"{n}: NCP reported {cur}, bellows wrote its own default {v} without a user override"))
            if n in schema_defaults:
                probe("schema_default_injected")
        # buffer count last
        if PBC in ids:
            probe("buffer_count_written")
            if log[-1][0] != "config" or log[-1][1] != PBC:
                after = [name_of.get(x[1], x[1]) if x[0] == "config" else f"value {x[1]}" for x in log[ids.index(PBC) + len(vids) + 1:]] if False else \
                    [name_of.get(x[1], x[1]) for x in log[[(y[0], y[1]) for y in log].index(("config", PBC)) + 1:]]
                viol.append(("C16.last", "not-last", where + f"CONFIG_PACKET_BUFFER_COUNT was followed by writes of {after}"))
        if raised is not None:
            if unwritten:
                viol.append(("C16.user", "raised-before-override", where + f"write_config raised {raised!r}; user overrides {unwritten} were not written"))
            else:
                key = "keyerror-disable-nondefault" if isinstance(raised, KeyError) else "raised"
                viol.append(("C16.continue", key, where + f"write_config raised {raised!r} after {len(log)} writes"))
        elif reject or vreject:
            probe("rejected_write", len([1 for x in log if x[3] != "OK"]))
            # continue: same sequence as without rejections
            setup(())
            try:
                await ez.write_config(dict(overrides))
            except Exception as e:
                viol.append(("C16.continue", "reference-run-raised", where + f"{e!r}"))
            ref = [(k, i, v) for (k, i, v, st) in ncp.write_log]
            got = [(k, i, v) for (k, i, v, st) in log]
            if got != ref:
                missing = [name_of.get(x[1], x[1]) for x in ref if x not in got]
                viol.append(("C16.continue", "stopped-after-rejection", where + f"with rejections {len(got)} writes, without {len(ref)}; missing {missing}"))
        nontrivial = bool(overrides) or bool(reject) or any(v == "unreadable" or (isinstance(v, int) and v > 16) for v in current.values())
        if nontrivial:
            sigs.add(hashlib.blake2b(repr((V, sorted(current.items(), key=str), sorted(overrides.items()), sorted(reject))).encode(), digest_size=8).digest())
            if len(samples) < 2:
                samples.append({"V": V, "overrides": overrides, "rejected": sorted(reject), "writes": [(name_of.get(i, i), v, st) for (i, v, st) in cfg][:24]})

    async def main():
        ez = await rig.bringup()
        if scenario == "grid":
            lvl = LEVELS[params["level"]]
            current = {int(e): lvl for e in t.EzspConfigId}
            if lvl == "unreadable":
                probe("current.unreadable")
            elif lvl > 16:
                probe("current.above_default")
            await one(ez, current, {}, set(), f"current={lvl}")
            base = list(last["cfg"])
            for n in params["names"]:
                await one(ez, current, {n: None}, set(), f"current={lvl}")
                vals = valid_values(V, n)
                for v in vals[:: params.get("step", 1)]:
                    await one(ez, current, {n: v}, set(), f"current={lvl}")
                # ... and afterwards a write WITHOUT overrides (another radio, a later start-up with the option removed): what bellows writes on
                # its own must not depend on what some earlier call was given
                await one(ez, current, {}, set(), f"current={lvl}, no overrides, after earlier calls that overrode {n}")
                probe("plain_write_after_overrides")
                if last["cfg"] != base:
                    diff = sorted(set(last["cfg"]) ^ set(base))
                    viol.append(("C16.user", "stale-override", f"v{V} current={lvl}: write_config({{}}) after earlier calls with overrides of {n} wrote {[(name_of.get(i, i), v, s_) for (i, v, s_) in diff]} "
                                 f"differently from the same call made before any override was given"))
        elif scenario == "slow":
            current = {int(e): 1 for e in t.EzspConfigId}
            await one(ez, current, {}, set(), "baseline")
            ids = [i for (i, v, st_) in last["cfg"]]
            for i in ids[params["k"]::4]:
                await one_slow(ez, current, i, ("setConfigurationValue",), "slow write")
                await one_slow(ez, current, i, ("getConfigurationValue",), "slow read")
        elif scenario == "rejects":
            # every written setting rejected in turn, with every rejection status: the remaining ones are written all the same
            current = {int(e): 1 for e in t.EzspConfigId}
            await one(ez, current, {}, set(), "baseline")
            ids = [i for (i, v, st_) in last["cfg"]]
            vids_w = list(last["vals"])
            if params["st0"] == 0:
                for vid in vids_w:
                    probe("rejected_value_write")
                    await one(ez, current, {}, set(), f"value {vid} rejected", vreject={vid})
            for stn in REJ[params["st0"]:params["st0"] + 2]:
                for i in ids:
                    probe("reject_status." + stn)
                    await one(ez, current, {}, {i: stn}, f"one rejection ({stn})")
        else:
            current = {}
            pool = ("unreadable", 0, 1, 3, 11, 12, 13, 15, 16, 17, 31, 32, 33, 199, 200, 201, 254, 255)
            for e in t.EzspConfigId:
                current[int(e)] = pool[tape.draw(len(pool), "cur")]
            if any(v == "unreadable" for v in current.values()):
                probe("current.unreadable")
            probe("current.above_default")
            overrides = {}
            for _ in range(tape.draw(6, "nover")):
                n = names[tape.draw(len(names), "oname")]
                if tape.draw(3, "disable") == 2:
                    overrides[n] = None
                else:
                    vals = valid_values(V, n)
                    if vals:
                        overrides[n] = vals[tape.draw(len(vals), "oval")]
            reject = {}
            for _ in range(tape.draw(4, "nrej")):
                reject[int(list(t.EzspConfigId)[tape.draw(len(t.EzspConfigId), "rej")])] = REJ[tape.draw(len(REJ), "rej.status")]
            await one(ez, current, overrides, reject, "random")

    outcome, val = rig.run(main())
    if outcome != "done":
        viol.append(("C16.continue", "sim-" + outcome, f"v{V}: simulation ended with {outcome}: {val!r}"))
    seen, uniq = set(), []
    for v in viol:
        if (v[0], v[1]) not in seen:
            seen.add((v[0], v[1]))
            uniq.append(v)
    res = {"viol": uniq, "faults": {"rejected_write": probes.get("rejected_write", 0)} if probes.get("rejected_write") else {}, "probes": probes, "vt": loop.time(),
           "iters": loop.iters, "sigs": sigs, "evals": max(1, nev[0]),
           "digest": hashlib.sha256(repr((rig.log[-200:], loop.time(), loop.iters)).encode()).hexdigest()[:16],
           "sample": samples[0] if samples else {"V": V, "evaluations": nev[0]}}
    if detail:
        res["trace"] = [repr(e) for e in rig.log[-200:]]
    return res
