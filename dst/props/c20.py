"""C20 - the cross-thread proxy runs calls on the owner's loop and relays results (engine E4: real threads under a baton scheduler)."""
import asyncio
import hashlib
import threading

import bellows.thread as bt

from .. import compat
from ..threads import run_threaded

compat.quiet_logging()
import warnings  # noqa: E402

warnings.filterwarnings("ignore", category=RuntimeWarning, message="coroutine .* was never awaited")

ID = "C20"
LEVEL = "exploration"
ENGINE = "E4 threads"
TECHNIQUE = ("deterministic simulation of two event loops in two real threads: a baton-passing scheduler lets exactly one thread run; the seeded tape picks the running "
             "thread at every loop iteration and at sys.settrace line events inside bellows/thread.py; bursts of proxied calls, force_stop at a drawn point and calls "
             "after the owner loop closed are generated; every body execution records its thread and loop")
LEVEL_TEXT = ("seeded search over thread interleavings (including pre-emption between lines of the proxy code), call mixes (coroutine returning / raising, plain returning "
              "None / a value, non-callable attribute, calls from the owner's own loop) in both directions (worker-owned and main-owned objects), and the position of "
              "force_stop(); distinct interleavings are counted as distinct schedule strings; a clean batch is evidence, not proof")
COMPONENTS = {
    "real": ["bellows.thread.EventLoopThread", "bellows.thread.ThreadSafeProxy", "real OS threads (threading.Thread), parked and released one at a time"],
    "simulated": ["both event loops (dst.threads.ThreadedSimLoop, shared virtual clock)", "thread scheduling (dst.threads.Baton, tape-driven)",
                  "loop.run_in_executor / ThreadPoolExecutor replaced by scheduler-managed threads", "asyncio event loop policy returning simulated loops"],
}
RULE = ("each run: start EventLoopThread, 1-3 bursts of 1-20 proxied calls of drawn kinds from the other loop (both directions), optional force_stop() at a drawn position, then calls "
        "after close. Non-trivial = the schedule switched threads at a pre-emption point or calls overlapped force_stop or a call raised; distinct = distinct (schedule string, call kinds).")
ASSUMPTIONS = [
    "no liveness is promised for calls issued while force_stop() is in progress; a coroutine call that was handed to the owner loop before force_stop() was called must still end (result, exception or cancellation)",
    "a plain call issued before force_stop() may never execute if the loop stops first (queued, not guaranteed); if it executes it executes exactly once and in call order",
    "exceptions of plain calls surface in the owner loop's exception handler",
    "force_stop() called on the owner's own loop: a coroutine call whose awaited future had been resolved before that call must deliver the body's outcome (it only needs one more loop turn); "
    "futures resolved after the call may end either way; bodies still suspended end with a cancellation",
]
PROBES = ["sibling_object_same_class", "second_loop_thread_exits_mid_call", "call.handover", "call.coro_value", "call.coro_slow", "call.coro_careful", "call.coro_raises", "call.coro_raises_now", "call.coro_value_now", "call.coro_raises_timeout", "call.coro_raises_lookup", "call.plain_none", "call.plain_value", "call.attr", "call.direct", "call.after_close", "force_stop_mid_burst", "force_stop_from_task",
          "preempted_in_proxy", "thread_switches", "typeerror_on_owner", "cancelled_by_stop", "owner_main_direction", "burst_ge_10", "ownerstop.direct", "ownerstop.done_callback",
          "ownerstop.call_value", "ownerstop.call_raise", "ownerstop.call_late", "ownerstop.call_never"]

KINDS = ("coro_value", "coro_raises", "plain_none", "plain_value", "attr", "coro_slow", "coro_careful", "coro_raises_now", "coro_value_now", "coro_raises_timeout", "coro_raises_lookup")


class Boom(Exception):
    pass


class Obj:
    """The wrapped object; every body records where it ran."""

    attribute = 42

    def __init__(self, rec):
        self.rec = rec
        self.gates = {}

    def _note(self, what, x):
        try:
            lp = asyncio.get_running_loop()
        except RuntimeError:
            lp = None
        self.rec.append((what, x, threading.get_ident(), lp))

    async def coro_value(self, x):
        self._note("coro_value", x)
        await asyncio.sleep(0)
        return ("value", x)

    async def coro_slow(self, x):
        """A body that stays suspended for a while (like Gateway.send_data waiting for its ACK)."""
        self._note("coro_slow", x)
        await asyncio.sleep(0.05)
        return ("value", x)

    async def coro_careful(self, x):
        """A body that cleans up when cancelled and needs further loop turns for it (an `async with`, a finally that awaits)."""
        self._note("coro_careful", x)
        try:
            await asyncio.sleep(0.05)
        finally:
            await asyncio.sleep(0)
            await asyncio.sleep(0)
        return ("value", x)

    async def coro_raises(self, x):
        self._note("coro_raises", x)
        await asyncio.sleep(0)
        raise Boom(x)

    async def coro_raises_now(self, x):
        """Raises before its first suspension (like send_data on a link that has already failed)."""
        self._note("coro_raises_now", x)
        raise Boom(x)

    async def coro_raises_timeout(self, x):
        """Raises an exception of a type asyncio itself uses for control flow (like Gateway.reset() running into RESET_TIMEOUT)."""
        self._note("coro_raises_timeout", x)
        await asyncio.sleep(0)
        raise asyncio.TimeoutError("body", x)

    async def coro_raises_lookup(self, x):
        self._note("coro_raises_lookup", x)
        await asyncio.sleep(0)
        raise KeyError("body", x)

    async def coro_value_now(self, x):
        """Finishes without ever suspending."""
        self._note("coro_value_now", x)
        return ("value", x)

    async def coro_gate(self, x):
        """A body suspended on a future that something on the owner's loop resolves later (like Gateway.reset() waiting for its RSTACK)."""
        self._note("coro_gate", x)
        fut = asyncio.get_running_loop().create_future()
        self.gates[x] = fut
        return ("gate", await fut)

    def plain_none(self, x):
        self._note("plain_none", x)

    def plain_value(self, x):
        self._note("plain_value", x)
        return x


def plan(tier):
    return {
        "sweeps": [("fixed", {"burst": b, "stop_at": s, "direction": d}, None) for b in (1, 5) for s in (None, 0, 2) for d in ("worker", "main")]
        + [("fixed", {"burst": 2, "stop_at": s, "direction": "worker", "second_thread": True}, None) for s in (None, 1)]
        + [("ownerstop", {"n": n, "how": how, "res": res}, None) for n in (1, 3) for how in ("direct", "done_callback") for res in ("value", "raise")],
        "sweep_random_tail": True,
        "exhaustive": "",
        "random": [("random", {}, 4), ("ownerstop", {}, 1)],
        "runs": 6000 if tier == "quick" else None,
        "budget_s": 60 if tier == "quick" else 900,
        "batch": 25,
    }


def run_ownerstop(params, tape, detail=False):
    """force_stop() issued ON the owner's loop (as uart.connect's "connection done" callback does), in the very callback - or the one after -
    that resolves the futures proxied coroutine calls are suspended on (Gateway.connection_lost: release the reset waiter, stop the thread).
    A body whose wait was over before force_stop() was called only needs one more turn of its loop: the caller gets what the body
    returned or raised, not a cancellation."""
    viol, probes = [], {}

    def probe(n, k=1):
        probes[n] = probes.get(n, 0) + k

    rec, st, calls = [], {}, []
    n = params.get("n") or 1 + tape.draw(4, "n")
    how = params.get("how") or ("direct", "done_callback")[tape.draw(2, "how")]

    async def main(sched, loop):
        thread = bt.EventLoopThread()
        await thread.start()
        wl = thread.loop
        st["owner_ident"], st["owner_loop"] = sched.ident.get("W1"), wl
        obj = Obj(rec)
        proxy = bt.ThreadsafeProxy(obj, wl)
        for i in range(n):
            mode = params.get("res") or ("value", "raise", "late", "never")[tape.draw(4, "res")]
            calls.append({"id": i, "mode": mode, "result": None})

        async def caller(c):
            try:
                c["result"] = ("value", await proxy.coro_gate(c["id"]))
            except asyncio.CancelledError:
                if asyncio.current_task().cancelling():
                    raise
                c["result"] = ("cancelled",)
            except BaseException as e:  # noqa: BLE001
                c["result"] = ("raised", e)

        tasks = [loop.create_task(caller(c)) for c in calls]
        for _ in range(400):
            if len(obj.gates) == n:
                break
            await asyncio.sleep(0.001)
        st["started"] = len(obj.gates)

        def resolve(c):
            f = obj.gates[c["id"]]
            if not f.done():
                f.set_exception(Boom(c["id"])) if c["mode"] == "raise" else f.set_result(c["id"])

        def on_owner():
            # runs as ONE callback of the owner's loop
            st["stop_called"] = True
            if how == "done_callback":
                probe("ownerstop.done_callback")
                conn_done = wl.create_future()
                conn_done.add_done_callback(lambda _: thread.force_stop())
                conn_done.set_result(None)  # its callback - force_stop() - runs in the next turn, ahead of the wake-ups scheduled below
                for c in calls:
                    if c["mode"] in ("value", "raise"):
                        c["entitled"] = True
                        resolve(c)
            else:
                probe("ownerstop.direct")
                for c in calls:
                    if c["mode"] in ("value", "raise"):
                        c["entitled"] = True
                        resolve(c)
                thread.force_stop()
            for c in calls:
                if c["mode"] == "late":
                    resolve(c)  # after force_stop() was called (direct) / requested: either outcome is accepted

        wl.call_soon_threadsafe(on_owner)
        for _ in range(600):
            if all(t.done() for t in tasks) and thread.thread_complete.done():
                break
            await asyncio.sleep(0.001)
        st["pending"] = [c["id"] for c, t in zip(calls, tasks) if not t.done()]
        for t in tasks:
            t.cancel()
        await asyncio.sleep(0)

    outcome, val, sched = run_threaded(tape, main)
    if outcome not in ("done", "hang"):
        viol.append(("C20.deadlock", "sim-" + outcome, f"ownerstop: simulation ended with {outcome}: {val!r}"))
    for (what, x, ident, lp) in rec:
        if ident != st.get("owner_ident") or lp is not st.get("owner_loop"):
            viol.append(("C20.where", "wrong-thread", f"ownerstop: body of {what}({x}) did not run on the owner's thread and loop"))
    if st.get("started") == n and st.get("stop_called"):
        for c in calls:
            res = c["result"]
            probe("ownerstop.call_" + c["mode"])
            if res is None:
                viol.append(("C20.relay", "orphaned-by-stop", f"ownerstop({how}): coroutine call {c['id']} ({c['mode']}) was suspended on the owner's loop when force_stop() was called there and never produced a result or a cancellation"))
            elif c.get("entitled"):
                want = ("raised", c["id"]) if c["mode"] == "raise" else ("value", ("gate", c["id"]))
                got = ("raised", res[1].args[0]) if res[0] == "raised" and isinstance(res[1], Boom) else res
                if got != want:
                    viol.append(("C20.relay", "runnable-body-cancelled-by-stop", f"ownerstop({how}): the future coroutine call {c['id']} was waiting for had been resolved ({c['mode']}) before force_stop() was called "
                                 f"on the owner's loop, yet the caller received {res!r} instead of the body's outcome"))
            elif c["mode"] == "never" and res[0] != "cancelled":
                viol.append(("C20.relay", "wrong-value", f"ownerstop({how}): coroutine call {c['id']} whose future was never resolved ended with {res!r}"))
    sstr = "".join(x[0].lower() + x[1:] if len(x) > 1 else x.lower() for x in sched.schedule)
    if sched.preemptions:
        probe("preempted_in_proxy", sched.preemptions)
    probe("thread_switches", sched.switches)
    modes = tuple(c["mode"] for c in calls)
    return {"viol": viol, "faults": {"force_stop": 1}, "probes": probes, "vt": sched.vt, "iters": sum(lp.iters for lp in sched.loops.values()),
            "sig": hashlib.blake2b(repr((sstr, modes, how)).encode(), digest_size=8).digest(), "nontrivial": True,
            "digest": hashlib.sha256(repr((sstr, modes, how, [c["result"] and c["result"][0] for c in calls], outcome)).encode()).hexdigest()[:16],
            "sample": {"scenario": "ownerstop", "how": how, "calls": [(c["mode"], c["result"] and c["result"][0]) for c in calls], "schedule_head": sstr[:80]},
            **({"trace": [f"schedule: {sstr[:2000]}"]} if detail else {})}


def run(scenario, params, tape, detail=False):
    if scenario == "ownerstop":
        return run_ownerstop(params, tape, detail)
    viol, probes = [], {}

    def probe(n, k=1):
        probes[n] = probes.get(n, 0) + k

    rec = []  # body executions
    calls = []  # dict(id, kind, t_issue_ev, result, where)
    evno = [0]
    st = {}

    def ev():
        evno[0] += 1
        return evno[0]

    direction = params.get("direction") or ("worker", "worker", "main")[tape.draw(3, "direction")]
    nburst = 1 if scenario == "fixed" else 1 + tape.draw(3, "nburst")
    stop_burst = None
    if scenario == "fixed":
        stop_at = params["stop_at"]
        stop_burst = 0 if stop_at is not None else None
    else:
        if tape.draw(2, "stop?"):
            stop_burst = tape.draw(nburst, "stop_burst")
        stop_at = None

    async def main(sched, loop):
        thread = bt.EventLoopThread()
        await thread.start()
        st["worker_loop"] = wl = thread.loop
        st["worker_ident"] = sched.ident.get("W1")
        st["main_ident"] = threading.get_ident()
        owner_loop = wl if direction == "worker" else loop
        st["owner_loop"] = owner_loop
        st["owner_ident"] = st["worker_ident"] if direction == "worker" else st["main_ident"]
        obj = Obj(rec)
        proxy = bt.ThreadsafeProxy(obj, owner_loop)
        if direction == "main":
            probe("owner_main_direction")
        st["stop_ev"] = None
        if direction == "worker":
            # a second object of the SAME class behind its own proxy, whose attributes differ at instance level (a callback slot that is None, a
            # method replaced by an async one): what a name is - coroutine method, plain method, not callable - is decided per object
            probe("sibling_object_same_class")
            sib = Obj(rec)
            sib.plain_none = None

            async def async_override(x, _sib=sib):
                _sib._note("plain_value", x)
                await asyncio.sleep(0)
                return ("value", x)

            sib.plain_value = async_override
            proxy_sib = bt.ThreadsafeProxy(sib, owner_loop)
            proxy.plain_none(-10)
            proxy.plain_value(-11)
            st["extra_typeerrors"] = 1
            await asyncio.sleep(0.01)
            try:
                proxy_sib.plain_none
                viol.append(("C20.attr", "sibling-noncallable-not-refused", "a non-callable attribute of a second object of the same class was not refused after the name had been looked up (as a method) on the first object"))
            except TypeError:
                pass
            try:
                r = proxy_sib.plain_value(-12)
                got = await asyncio.wait_for(r, 1.0) if r is not None else None
            except Exception as e:  # noqa: BLE001
                got = e
            if got != ("value", -12):
                viol.append(("C20.relay", "sibling-async-override", f"an async method installed on a second object of the same class returned {got!r} through its proxy (expected its result)"))
            if params.get("second_thread") or (scenario != "fixed" and tape.draw(3, "second_thread") == 2):
                # a second secondary-loop thread in the process (another radio link) comes and goes while calls are in flight on this one:
                # its exit concerns nobody else's calls
                probe("second_loop_thread_exits_mid_call")
                thread2 = bt.EventLoopThread()
                await thread2.start()
                inflight = [asyncio.ensure_future(proxy.coro_slow(-20 - k)) for k in range(3)]
                await asyncio.sleep(0.01)
                thread2.force_stop()
                for _ in range(200):
                    if thread2.thread_complete.done():
                        break
                    await asyncio.sleep(0.001)
                res2 = await asyncio.gather(*inflight, return_exceptions=True)
                want2 = [("value", -20 - k) for k in range(3)]
                if res2 != want2:
                    viol.append(("C20.relay", "cancelled-by-another-threads-exit", f"three calls in flight on one loop thread when ANOTHER loop thread of the process stopped: "
                                 f"the callers got {res2!r} (expected {want2!r})"))

        async def one(c):
            """Runs on the *caller's* loop."""
            c["issued"] = ev()
            c["thread"] = threading.get_ident()
            k = c["kind"]
            try:
                if k == "attr":
                    try:
                        proxy.attribute
                        c["result"] = ("no-error",)
                    except TypeError as e:
                        c["result"] = ("typeerror", str(e))
                    return
                r = getattr(proxy, k)(c["id"])
                c["immediate"] = r
                c["returned"] = ev()
                if k.startswith("coro") and r is not None:
                    try:
                        c["result"] = ("value", await r)
                    except asyncio.CancelledError:
                        if asyncio.current_task().cancelling():
                            raise  # the harness is tearing the run down: the call itself never produced anything
                        c["result"] = ("cancelled",)
                    except BaseException as e:  # noqa: BLE001
                        c["result"] = ("raised", e)
                else:
                    c["result"] = ("returned", r)
            except asyncio.CancelledError:
                raise
            except Exception as e:  # noqa: BLE001 - raised synchronously by the proxy call itself
                c["result"] = ("raised", e)
            finally:
                c["ended"] = ev()

        async def burst(n, kinds, stop_pos):
            cs = []
            tasks = []
            for j in range(n):
                c = {"id": len(calls), "kind": kinds[j], "result": None, "issued": None, "ended": None, "after_close": False}
                calls.append(c)
                cs.append(c)
            if direction == "worker":
                # callers on the main loop
                # force_stop() either inline (before the later caller tasks of this burst have started) or from a task of its
                # own queued between the caller tasks, so that earlier callers have already handed their calls over when it runs
                stop_mode = tape.draw(2, "stop_mode") if stop_pos is not None and scenario != "fixed" else 0

                async def stopper():
                    st["stop_ev"] = ev()
                    probe("force_stop_from_task")
                    thread.force_stop()

                for j, c in enumerate(cs):
                    if stop_pos is not None and j == stop_pos:
                        if stop_mode:
                            st["stop_planned"] = True
                            tasks.append(loop.create_task(stopper()))
                        else:
                            st["stop_ev"] = ev()
                            probe("force_stop_mid_burst")
                            thread.force_stop()
                    tasks.append(loop.create_task(one(c)))
                if stop_pos is not None and stop_pos >= n:
                    st["stop_ev"] = ev()
                    thread.force_stop()
            else:
                # callers on the worker loop, object owned by the main loop
                async def on_worker():
                    ts = [asyncio.get_running_loop().create_task(one(c)) for c in cs]
                    await asyncio.gather(*ts, return_exceptions=True)

                fut = thread.run_coroutine_threadsafe(on_worker())
                tasks.append(fut)
                if stop_pos is not None:
                    # let the worker make some progress, then stop it
                    for _ in range(stop_pos):
                        await asyncio.sleep(0)
                    st["stop_ev"] = ev()
                    probe("force_stop_mid_burst")
                    thread.force_stop()
            return cs, tasks

        all_tasks = []
        for b in range(nburst):
            if scenario == "fixed":
                n = params["burst"]
                kinds = [KINDS[(i + b) % len(KINDS)] for i in range(n)]
            else:
                n = 1 + tape.draw(20, "n")
                kinds = [KINDS[tape.draw(len(KINDS), "kind")] for _ in range(n)]
            if n >= 10:
                probe("burst_ge_10")
            sp = None
            if stop_burst == b:
                sp = stop_at if stop_at is not None else tape.draw(n + 1, "stop_at")
            _cs, ts = await burst(n, kinds, sp)
            all_tasks += ts
            # a direct call from the owner's own loop
            if direction == "main" and st["stop_ev"] is None and not st.get("stop_planned"):
                probe("call.direct")
                n0 = len(rec)
                r = proxy.plain_value(-1)
                if r != -1 or len(rec) != n0 + 1:
                    viol.append(("C20.direct", "not-synchronous", f"call from the owner's loop returned {r!r} and executed {len(rec) - n0} bodies before returning"))
                co = proxy.coro_value(-2)
                if not asyncio.iscoroutine(co):
                    viol.append(("C20.direct", "coroutine", f"coroutine method called from the owner's loop returned {co!r}"))
                else:
                    v = await co
                    if v != ("value", -2):
                        viol.append(("C20.direct", "value", f"direct coroutine call returned {v!r}"))
            # methods looked up on one loop and invoked on the other (a stored bound method handed over as a callback)
            if st["stop_ev"] is None and not st.get("stop_planned") and b == 0 and (scenario == "fixed" or tape.draw(2, "handover")):
                probe("call.handover")
                other_is_worker = direction == "main"  # the non-owner loop

                async def on_w(fn):
                    return fn()

                def run_on(where, fn):
                    """Run fn() inside loop `where` ('M' = here, 'W' = worker) and return its result."""
                    if where == "M":
                        async def here():
                            return fn()
                        return here()
                    return thread.run_coroutine_threadsafe(on_w(fn))

                owner, other = ("W", "M") if direction == "worker" else ("M", "W")
                # 1. fetched on the owner's loop, called from the other loop: must still be marshalled to the owner
                m_plain = await run_on(owner, lambda: proxy.plain_none)
                m_coro = await run_on(owner, lambda: proxy.coro_value)
                hid = 1000 + len(calls)
                n0 = len(rec)
                r = await run_on(other, lambda: m_plain(hid))
                if r is not None:
                    viol.append(("C20.plain", "handover-return", f"stored plain method fetched on the owner's loop and called from the other loop returned {r!r}"))
                fut = await run_on(other, lambda: m_coro(hid + 1))
                if direction == "worker":
                    try:
                        v = await fut if fut is not None else None
                    except BaseException as e:  # noqa: BLE001
                        v = e
                    if v != ("value", hid + 1):
                        viol.append(("C20.relay", "handover-value", f"stored coroutine method called from the other loop gave {v!r}"))
                for _ in range(50):
                    if len([x for x in rec[n0:] if x[1] in (hid, hid + 1)]) >= 2:
                        break
                    await asyncio.sleep(0.001)
                # 2. fetched on the other loop, called on the owner's loop: runs directly
                m2 = await run_on(other, lambda: proxy.plain_value)
                n1 = len(rec)

                def direct():
                    r2 = m2(hid + 2)
                    return (r2, len(rec) - n1)

                r2, ran = await run_on(owner, direct)
                if r2 != hid + 2 or ran != 1:
                    viol.append(("C20.direct", "handover-not-direct", f"method fetched on another loop and called on the owner's loop returned {r2!r} and ran {ran} bodies before returning (expected the value, synchronously)"))
            # wait for the burst, bounded by loop iterations (no real time)
            for _ in range(400):
                if all(t.done() for t in ts):
                    break
                await asyncio.sleep(0.001)
            if st["stop_ev"] is not None:
                break
        # wait for the worker thread to finish if it was stopped
        if st["stop_ev"] is not None:
            for _ in range(400):
                if thread.thread_complete.done():
                    break
                await asyncio.sleep(0.001)
            st["closed"] = wl.is_closed()
            if direction == "worker" and wl.is_closed():
                # C20.closed: calls after the owner loop finished closing execute nothing and do not block
                for k in ("coro_value", "plain_none", "plain_value", "coro_raises", "coro_raises_now", "coro_value_now", "coro_raises_timeout", "coro_raises_lookup"):
                    probe("call.after_close")
                    n0 = len(rec)
                    c = {"id": len(calls), "kind": k, "result": None, "after_close": True}
                    calls.append(c)
                    r = getattr(proxy, k)(c["id"])
                    c["result"] = ("returned", r)
                    if r is not None or len(rec) != n0:
                        viol.append(("C20.closed", "not-dropped", f"{k} called after the owner loop closed returned {r!r} and executed {len(rec) - n0} bodies"))
        else:
            thread.force_stop()
            for _ in range(400):
                if thread.thread_complete.done():
                    break
                await asyncio.sleep(0.001)
        st["all_done"] = all(t.done() for t in all_tasks)
        st["pending_tasks"] = [t for t in all_tasks if not t.done()]
        for t in all_tasks:
            if not t.done():
                t.cancel()
        await asyncio.sleep(0)

    outcome, val, sched = run_threaded(tape, main)

    # ------------------------------------------------------------------ oracle
    stop_ev = st.get("stop_ev")
    owner_ident, owner_loop = st.get("owner_ident"), st.get("owner_loop")
    executed = {}
    for (what, x, ident, lp) in rec:
        if x is not None and x >= 0:
            executed.setdefault(x, []).append(what)
            if ident != owner_ident or lp is not owner_loop:
                viol.append(("C20.where", "wrong-thread", f"body of {what}({x}) ran on thread {'caller' if ident != owner_ident else 'owner'} / loop {'owner' if lp is owner_loop else 'other'} (direction {direction})"))
    owner_exc = [e for e in (getattr(owner_loop, "exceptions", []) or [])]
    for c in calls:
        k, res = c["kind"], c["result"]
        probe("call." + k) if not c.get("after_close") else None
        if c.get("after_close"):
            continue
        overl = stop_ev is not None and (c.get("ended") is None or c["ended"] > stop_ev)
        n_exec = len(executed.get(c["id"], []))
        if n_exec > 1:
            viol.append(("C20.relay", "executed-twice", f"call {c['id']} ({k}) executed {n_exec} times"))
        if c.get("issued") is None:
            continue  # the caller task never ran (its loop was stopped first)
        if k == "attr":
            if res is None or res[0] != "typeerror":
                viol.append(("C20.attr", "not-refused", f"non-callable attribute through the proxy gave {res!r}"))
            continue
        if res is None:
            if c.get("issued") is None:
                continue  # the caller task never ran (stopped before)
            if (direction == "worker" and stop_ev is not None and k.startswith("coro") and c.get("returned") is not None and c["returned"] < stop_ev
                    and outcome in ("done", "hang")):
                # handed to the owner loop before force_stop() was even called: the owner loop creates its task before it takes
                # the snapshot of tasks to cancel (call_soon_threadsafe is FIFO), so the caller gets a result or CancelledError
                viol.append(("C20.relay", "orphaned-by-stop", f"coroutine call {c['id']} ({k}) was handed to the owner loop at event {c['returned']}, before force_stop() "
                             f"(event {stop_ev}), and never produced a result or a cancellation"))
                continue
            if not overl and outcome == "done":
                viol.append(("C20.relay", "no-result", f"call {c['id']} ({k}) issued at event {c['issued']} never produced a result (no force_stop overlap)"))
            continue
        if res[0] == "raised" and isinstance(res[1], RuntimeError) and "closed" in str(res[1]).lower():
            # whatever the timing, a call that meets a closed (or just closing) owner loop is dropped, never answered with the loop's own RuntimeError
            viol.append(("C20.closed", "raised-instead-of-dropped", f"call {c['id']} ({k}) met the closing owner loop and raised {res[1]!r} into the caller instead of being dropped"))
            continue
        if k in ("plain_none", "plain_value"):
            if res != ("returned", None):
                viol.append(("C20.plain", "return-value", f"plain call {c['id']} ({k}) from the other loop returned {res!r} to the caller"))
            if n_exec == 0 and not overl and outcome == "done":
                viol.append(("C20.plain", "not-executed", f"plain call {c['id']} ({k}) was never executed on the owner's loop although the loop kept running"))
        elif k in ("coro_value", "coro_slow", "coro_careful", "coro_value_now"):
            if res[0] == "value" and res[1] != ("value", c["id"]):
                viol.append(("C20.relay", "wrong-value", f"coroutine call {c['id']} returned {res[1]!r}"))
            elif res[0] == "raised" and not overl:
                viol.append(("C20.relay", "unexpected-exception", f"coroutine call {c['id']} raised {res[1]!r}"))
            elif res[0] == "returned":
                if not (overl and res[1] is None):
                    viol.append(("C20.relay", "not-awaitable", f"coroutine call {c['id']} through the proxy returned {res[1]!r}"))
            elif res[0] == "cancelled":
                probe("cancelled_by_stop")
                if not overl:
                    viol.append(("C20.relay", "cancelled", f"coroutine call {c['id']} was cancelled without force_stop"))
            if res[0] == "value" and n_exec != 1:
                viol.append(("C20.relay", "value-without-execution", f"coroutine call {c['id']} returned a value but its body ran {n_exec} times"))
        elif k in ("coro_raises", "coro_raises_now", "coro_raises_timeout", "coro_raises_lookup"):
            want_t = {"coro_raises_timeout": asyncio.TimeoutError, "coro_raises_lookup": KeyError}.get(k, Boom)
            if res[0] == "raised" and not (isinstance(res[1], want_t) and (want_t is Boom or res[1].args[:1] == ("body",))) and not overl:
                viol.append(("C20.relay", "wrong-exception", f"coroutine call {c['id']} raised {res[1]!r} instead of the body's exception"))
            elif res[0] == "value":
                viol.append(("C20.relay", "exception-lost", f"coroutine call {c['id']} returned {res[1]!r} although its body raised"))
            elif res[0] == "cancelled" and not overl:
                viol.append(("C20.relay", "cancelled", f"coroutine call {c['id']} was cancelled without force_stop"))
    # plain calls execute in call order
    order = [x for (what, x, _i, _l) in rec if what.startswith("plain") and x is not None and 0 <= x < 1000]
    if order != sorted(order):
        viol.append(("C20.plain", "order", f"plain calls executed in order {order}"))
    # plain_value -> TypeError on the owner loop, not in the caller
    npv = sum(1 for c in calls if c["kind"] == "plain_value" and not c.get("after_close") and len(executed.get(c["id"], [])) == 1)
    nte = sum(1 for (_m, tname, _r) in owner_exc if tname == "TypeError")
    nte -= st.get("extra_typeerrors", 0)  # (the priming call of the sibling-object section returns a value on purpose)
    if npv:
        probe("typeerror_on_owner", nte)
        if nte != npv and stop_ev is None:
            viol.append(("C20.plain", "typeerror-count", f"{npv} plain calls returned a value on the owner loop but {nte} TypeErrors were reported there"))
    if sched.livelock:
        viol.append(("C20.deadlock", "livelock", f"thread {sched.livelock[0]} executed more than {sched.max_line_events} lines inside bellows/thread.py ({sched.livelock[1]}, line {sched.livelock[2]}) "
                     f"without returning to its event loop: the caller's loop is spinning"))
    if outcome == "hang":
        blocked = [c for c in calls if c.get("issued") is not None and c.get("ended") is None and not c.get("after_close")]
        early = [c for c in blocked if stop_ev is None or c["issued"] < stop_ev and False]
        if stop_ev is None:
            viol.append(("C20.deadlock", "hang", f"all threads parked with callers {[(c['id'], c['kind']) for c in blocked]} blocked and no force_stop issued: {val!r}"))
    elif outcome != "done":
        viol.append(("C20.deadlock", "sim-" + outcome, f"simulation ended with {outcome}: {val!r}"))
    elif stop_ev is None and not st.get("all_done", True):
        viol.append(("C20.deadlock", "pending-callers", "caller tasks still pending although the owner loop kept running"))
    sstr = "".join(n[0].lower() + n[1:] if len(n) > 1 else n.lower() for n in sched.schedule)
    if sched.preemptions:
        probe("preempted_in_proxy", sched.preemptions)
    probe("thread_switches", sched.switches)
    kinds = tuple(c["kind"] for c in calls)
    sig = hashlib.blake2b(repr((sstr, kinds, direction, stop_ev is not None)).encode(), digest_size=8).digest()
    nontrivial = bool(sched.preemptions) or stop_ev is not None or any(c["kind"] in ("coro_raises", "coro_raises_now", "coro_raises_timeout", "coro_raises_lookup", "plain_value", "attr") for c in calls)
    res = {"viol": viol, "faults": {"force_stop": 1} if stop_ev is not None else {}, "probes": probes, "vt": sched.vt, "iters": sum(lp.iters for lp in sched.loops.values()),
           "sig": sig, "nontrivial": nontrivial,
           "digest": hashlib.sha256(repr((sstr, kinds, [(c["kind"], c["result"] and c["result"][0]) for c in calls], outcome)).encode()).hexdigest()[:16],
           "sample": {"direction": direction, "calls": [(c["kind"], c["result"] and c["result"][0]) for c in calls[:16]], "force_stop": stop_ev is not None,
                      "schedule_head": sstr[:80], "thread_switches": sched.switches, "preemptions_in_proxy": sched.preemptions}}
    if detail:
        res["trace"] = [f"schedule: {sstr[:2000]}"] + [repr((w, x)) for (w, x, _i, _l) in rec[:100]]
    return res
