"""C14 - network settings survive a write / (NCP reset) / read round trip through the NCP (engine E3 with the application)."""
import asyncio
import copy
import hashlib

import bellows.zigbee.application as appmod
import zigpy.state
import zigpy.types as zt

from .. import e3app

ID = "C14"
LEVEL = "exploration"
ENGINE = "E3 stack"
TECHNIQUE = ("deterministic simulation: write_network_info -> NCP reset -> load_network_info on the real ControllerApplication against the reference NCP whose "
             "configuration is volatile and whose tokens/keys/tables are durable; network settings, NCP capabilities (EUI64 rewriting, token access), protocol "
             "version and the timing of stack-status events relative to responses are drawn from a seeded tape; os.urandom is fed from the tape")
LEVEL_TEXT = ("for every version 4..14 a grid of capability variants x representative settings is swept completely and seeded runs draw PAN/EPID/channel/mask/update id, "
              "keys with counters, 0-6 link keys, 0-5 children, TC address known or not, hashed TCLK present or absent; every run writes, resets the NCP once more, "
              "reads back and compares field by field; exploration (the value space is sampled)")
COMPONENTS = e3app.COMPONENTS
RULE = ("sweep: (version, NCP capability variant, settings template); random: drawn settings and capabilities. Each round trip is one evaluation; non-trivial = all "
        "(every run resets the NCP between write and read); distinct = distinct (version, capabilities, settings) digests.")
ASSUMPTIONS = [
    "the NCP model's semantics for the ~45 commands of the write/read path (dst/ncpmodel.py): security state and keys, link-key table bounded by the configured size, child table, "
    "frame counters settable only without a network, tokens, EUI64 taking effect at reset, configuration lost at reset",
    "link keys beyond the configured key-table size, fields a version cannot store (v4: frame counters, children below v9) and the EUI64 when it cannot be rewritten are excluded, as the statement says",
    "command payload schemas inside the NCP model are bellows' own tables",
]
PROBES = ["formed_by_zigpy_initialize", "restore_over_same_network", "second_round_trip_on_one_application", "earlier_read_with_smaller_key_table", "eui64.rewritten_nv3", "eui64.not_rewritable", "eui64.same", "eui64.custom_before", "eui64.unknown", "hashed_tclk.given", "hashed_tclk.generated", "link_keys.some", "link_keys.over_capacity", "link_keys.gap_in_table", "read_failed_on_unanswered_command", "read_returned_despite_unanswered_command", "write_failed_on_unanswered_command", "write_returned_despite_unanswered_command",
          "children.some", "tc_address.unknown", "status_event_before_response", "token_api_missing", "mask_without_channel"]

VERSIONS = list(range(4, 15))
WELL_KNOWN = b"ZigBeeAlliance09"


class OsShim:
    def __init__(self, tape):
        self.tape = tape
        self.calls = []

    def urandom(self, n):
        rng = self.tape.sub("urandom")
        b = bytes(rng.randrange(256) for _ in range(n))
        self.calls.append(b)
        return b

    def __getattr__(self, name):
        import os

        return getattr(os, name)


def plan(tier):
    sweeps = []
    for V in VERSIONS:
        for cap in range(5 if V >= 9 else 4):
            for tmpl in range(4):
                sweeps.append(("grid", {"V": V, "cap": cap, "tmpl": tmpl, "sched": False}))
        # a link key in the middle of the table is erased between write and read (what an unsecured rejoin of that device does): the rest must still be read
        for tmpl, erase in ((2, 1), (3, 0), (3, 7)):
            sweeps.append(("grid", {"V": V, "cap": 3, "tmpl": tmpl, "sched": False, "erase": erase}))
    for V in VERSIONS:
        sweeps.append(("grid", {"V": V, "cap": 3, "tmpl": 2, "sched": False, "same_net": True}))
        sweeps.append(("grid", {"V": V, "cap": 3, "tmpl": 2, "sched": False, "pre_round": 3}))
        sweeps.append(("grid", {"V": V, "cap": 3, "tmpl": 0, "sched": False, "pre_round": 3}))
        sweeps.append(("grid", {"V": V, "cap": 3, "tmpl": 3, "sched": False, "pre_round": 2, "pre_small_table": True}))
    # one command of the read-back is never answered (10 s command timeout): the read may fail, it must never return something else than what was written
    for V in (4, 7, 9, 13, 14):
        ks = list(range(0, 40)) + list(range(40, 330, 3 if tier == "thorough" else 9))
        for i in range(0, len(ks), 8):
            sweeps.append(("grid", {"V": V, "cap": 3, "tmpl": 2, "sched": False, "drop_read": ks[i:i + 8]}))
        kw = list(range(0, 150, 2 if tier == "thorough" else 5))
        for i in range(0, len(kw), 8):
            sweeps.append(("grid", {"V": V, "cap": 0 if V >= 9 else 3, "tmpl": 2, "sched": False, "drop_write": kw[i:i + 8]}))
    # the write / read path as zigpy itself drives it on a stick that never had a network: initialize(auto_form=True) = ephemeral network, energy
    # scan, final settings (from the configuration), start-up read
    for V in VERSIONS:
        sweeps.append(("autoform", {"V": V, "sched": False}))
    return {
        "sweeps": sweeps,
        "exhaustive": "versions 4..14 x capability variant {NV3 restored-EUI64 token; token API but no such token; token API answers invalidCommand; plain; NV3 token already holding a custom EUI64 (v9+)} x 4 settings templates",
        "random": [("random", {}, 3), ("erase", {}, 1), ("dropread", {}, 1), ("dropwrite", {}, 1)],
        "runs": 250 if tier == "quick" else None,
        "budget_s": 60 if tier == "quick" else 900,
        "batch": 4,
        "sweep_batch": 2,
    }


def eui(b):
    return zt.EUI64.deserialize(bytes(b))[0]


def keydata(b):
    return zt.KeyData.deserialize(bytes(b))[0]


def make_settings(tape, tmpl, ncp_eui):
    """Returns (NetworkInfo, NodeInfo, facts)"""
    if tmpl is None:
        pan = tape.draw(0xFFFE, "pan")
        epid = tape.rand_bytes(8, "epid")
        channel = 11 + tape.draw(16, "chan")
        mask_kind = tape.draw(3, "mask")
        mask = (0x07FFF800, 1 << channel, (1 << 11) | (1 << 20) | (1 << 25))[mask_kind]
        upd = tape.draw(256, "upd")
        nkey = tape.rand_bytes(16, "nkey")
        nseq = tape.draw(256, "nseq")
        nfc = (0, 1, 0x1000, 0x00FFFFFF, 0xFFFFFFFE)[tape.draw(5, "nfc")]
        tfc = (0, 0x2000, 0x89ABCDEF)[tape.draw(3, "tfc")]
        nlk = (0, 0, 1, 2, 4, 6, 14)[tape.draw(7, "nlk")]
        nch = (0, 0, 1, 3, 5)[tape.draw(5, "nch")]
        hashed = tape.draw(2, "hashed")
        ieee_kind = tape.draw(4, "ieee")  # 0 same as NCP, 1 different, 2 unknown, 3 different
        tc_unknown = tape.draw(4, "tcu") == 3
    else:
        pan, epid, channel, upd = (0x1234, 0xFFFD, 0x0001, 0xABCD)[tmpl], bytes([tmpl + 1] * 8), (11, 15, 20, 26)[tmpl], (0, 1, 200, 255)[tmpl]
        mask = (0x07FFF800, 1 << 15, (1 << 11) | (1 << 25), 0x07FFF800)[tmpl]
        nkey, nseq = bytes(range(16 * tmpl, 16 * tmpl + 16)), (0, 1, 7, 255)[tmpl]
        nfc, tfc = (0, 0x1000, 0x00FFFFFF, 0xFFFFFFFE)[tmpl], (0, 0x2000, 0, 0x89ABCDEF)[tmpl]
        nlk, nch = (0, 2, 5, 14)[tmpl], (0, 1, 3, 5)[tmpl]
        hashed = tmpl % 2
        ieee_kind = (0, 1, 2, 1)[tmpl]
        tc_unknown = tmpl == 3
    node_ieee = {0: bytes(ncp_eui), 1: bytes([0xEE, 1, 2, 3, 4, 5, 6, 0x10 + (tmpl or 0)]), 2: None, 3: bytes([0xDD, 9, 8, 7, 6, 5, 4, 3])}[ieee_kind]
    keys = []
    for i in range(nlk):
        keys.append(zigpy.state.Key(key=keydata(bytes([(0x40 + i * 3 + j) & 0xFF for j in range(16)])), partner_ieee=eui(bytes([0xC0 + i, 0, 1, 2, 3, 4, 5, 6])), tx_counter=0, rx_counter=0, seq=0))
    children, nwk_addresses = [], {}
    for i in range(nch):
        e = eui(bytes([0xB0 + i, 7, 6, 5, 4, 3, 2, 1]))
        children.append(e)
        if not (tmpl is None and i == 2):
            nwk_addresses[e] = zt.NWK(0x2000 + 0x101 * i)
    stack_specific = {}
    hashed_hex = None
    if hashed:
        hashed_hex = bytes([0x70 + j for j in range(16)]).hex()
        stack_specific = {"ezsp": {"hashed_tclk": hashed_hex}}
    tclk_partner = zt.EUI64.UNKNOWN if tc_unknown or node_ieee is None else eui(node_ieee)
    ni = zigpy.state.NetworkInfo(
        extended_pan_id=zt.ExtendedPanId.deserialize(epid)[0], pan_id=zt.PanId(pan), nwk_update_id=zt.uint8_t(upd), nwk_manager_id=zt.NWK(0x0000), channel=zt.uint8_t(channel),
        channel_mask=zt.Channels(mask), security_level=zt.uint8_t(5),
        network_key=zigpy.state.Key(key=keydata(nkey), seq=nseq, tx_counter=nfc), tc_link_key=zigpy.state.Key(key=keydata(WELL_KNOWN), tx_counter=tfc, partner_ieee=tclk_partner),
        key_table=keys, children=children, nwk_addresses=nwk_addresses, stack_specific=stack_specific, source="dst")
    node = zigpy.state.NodeInfo(nwk=zt.NWK(0x0000), ieee=eui(node_ieee) if node_ieee is not None else zt.EUI64.UNKNOWN, logical_type=zigpy.zdo.types.LogicalType.Coordinator)
    facts = {"pan": pan, "epid": bytes(epid), "channel": channel, "mask": mask, "upd": upd, "nkey": bytes(nkey), "nseq": nseq, "nfc": nfc, "tfc": tfc,
             "keys": [(bytes(k.key.serialize()), bytes(k.partner_ieee.serialize())) for k in keys],
             "children": {bytes(e.serialize()): int(nwk_addresses[e]) for e in children if e in nwk_addresses}, "hashed_hex": hashed_hex, "node_ieee": node_ieee,
             "ieee_kind": ieee_kind, "tc_unknown": tc_unknown}
    return ni, node, facts


def run_autoform(params, tape, detail=False):
    import zigpy.config as zc

    V = params["V"]
    rig = e3app.AppRig(tape, version=V, sched=params.get("sched", True))
    rig.line.ties = False
    loop, ncp = rig.loop, rig.ncp
    appmod.os = OsShim(tape)
    viol, probes, st = [], {"formed_by_zigpy_initialize": 1}, {}
    pan, epid, nkey = 0x1A2B, bytes([0x88, 0x77, 0x66, 0x55, 0x44, 0x33, 0x22, 0x11]), bytes(range(0x30, 0x40))

    async def main():
        nwk_cfg = {zc.CONF_NWK_PAN_ID: pan, zc.CONF_NWK_EXTENDED_PAN_ID: zt.ExtendedPanId.deserialize(epid)[0], zc.CONF_NWK_KEY: zt.KeyData(nkey)}
        app = rig.make_app(**{zc.CONF_NWK: nwk_cfg})
        ncp.auto_confirm = True
        await app.connect()
        rig.ezsp = app._ezsp
        await app.initialize(auto_form=True)
        st["net"], st["node"] = app.state.network_info, app.state.node_info
        st["sec_calls"] = list(ncp.sec_calls)
        # ... and once more after another NCP reset, as C14's other scenarios do
        await app._reset()
        await app.load_network_info(load_devices=True)
        st["net2"] = app.state.network_info

    outcome, val = rig.run(main())
    tag = f"v{V} formed by zigpy's initialize(auto_form=True)"
    if outcome != "done":
        import traceback

        tb = "".join(traceback.format_exception(val))[-500:] if isinstance(val, BaseException) else ""
        if isinstance(val, TimeoutError) and "startup_reset" in tb:
            probes["startup_failed_by_reset_race"] = 1  # F13 (C09's open finding): zigpy's keep-alive queued when bellows resets the NCP
        else:
            viol.append(("C14.rt", "sim-" + outcome, f"{tag}: ended with {outcome}: {val!r} {tb}"))
    else:
        npar = ncp.net_params
        for which, net in (("start-up read", st["net"]), ("read after a further reset", st["net2"])):
            have = {"pan_id": int(net.pan_id), "extended_pan_id": bytes(net.extended_pan_id.serialize()), "network_key": bytes(net.network_key.key.serialize()),
                    "network_key_seq": int(net.network_key.seq), "tclk": bytes(net.tc_link_key.key.serialize()), "channel": int(net.channel)}
            want = {"pan_id": pan, "extended_pan_id": epid, "network_key": nkey, "network_key_seq": 0, "tclk": WELL_KNOWN, "channel": int(npar.radioChannel)}
            bad = {k: (have[k], want[k]) for k in want if have[k] != want[k]}
            if bad:
                viol.append(("C14.rt", sorted(bad)[0], f"{tag}: {which} differs from the settings zigpy wrote (got, written): {bad}"))
            if not (int(net.channel_mask) >> int(net.channel)) & 1:
                viol.append(("C14.rt", "channel_mask", f"{tag}: {which}: channel {int(net.channel)} not in the mask {int(net.channel_mask):#x}"))
        if int(npar.panId) != pan or bytes(npar.extendedPanId.serialize()) != epid or bytes(ncp.sec["nwk_key"]) != nkey:
            viol.append(("C14.sec", "ncp-state", f"{tag}: the NCP ended up with pan {int(npar.panId):#06x} / epid {bytes(npar.extendedPanId.serialize()).hex()} / key {bytes(ncp.sec['nwk_key']).hex()}"))
        last = st["sec_calls"][-1] if st["sec_calls"] else None
        if last is None or bytes(last.networkKey.serialize()) != nkey or bool(int(last.bitmask) & 0x0084 == 0x0084) != (V >= 5):
            viol.append(("C14.sec", "network-key", f"{tag}: last setInitialSecurityState carried {last!r}"))
    res = {"viol": viol, "faults": {}, "probes": probes, "vt": loop.time(), "iters": loop.iters, "sig": hashlib.blake2b(repr(("autoform", V)).encode(), digest_size=8).digest(),
           "nontrivial": True, "digest": hashlib.sha256(repr((rig.log[-300:], loop.time(), loop.iters)).encode()).hexdigest()[:16],
           "sample": {"V": V, "scenario": "autoform", "setInitialSecurityState_calls": len(st.get("sec_calls", [])), "commands": len(ncp.requests)}}
    if detail:
        res["trace"] = [repr(e) for e in rig.log[-200:]]
    return res


def run(scenario, params, tape, detail=False):
    if scenario == "autoform":
        return run_autoform(params, tape, detail)
    multi = next((key for key in ("drop_read", "drop_write") if isinstance(params.get(key), list)), None)
    if multi:
        # several cells in one run record: the k-th command of the read-back (or of the write) goes unanswered, for each listed k
        out = None
        for k in params[multi]:
            r = run(scenario, dict(params, **{multi: k}), tape, detail)
            if out is None:
                out = r
                out["sigs"] = {out.pop("sig")}
                out["evals"] = 1
            else:
                out["viol"] += r["viol"]
                out["sigs"].add(r["sig"])
                out["evals"] += 1
                out["vt"] += r["vt"]
                out["iters"] += r["iters"]
                for kk, v in r["probes"].items():
                    out["probes"][kk] = out["probes"].get(kk, 0) + v
                for kk, v in r["faults"].items():
                    out["faults"][kk] = out["faults"].get(kk, 0) + v
                out["digest"] = hashlib.sha256((out["digest"] + r["digest"]).encode()).hexdigest()[:16]
        return out
    import zigpy.zdo.types  # noqa: F401

    V = params["V"] if "V" in params else VERSIONS[tape.draw(len(VERSIONS), "V")]
    cap = params["cap"] if "cap" in params else tape.draw(5, "cap")
    rig = e3app.AppRig(tape, version=V, sched=params.get("sched", True))
    loop, ncp = rig.loop, rig.ncp
    ncp.preform()  # the NCP has an old network that the write must replace
    ncp.nwk_fc, ncp.aps_fc = 0x0001D001, 0x0002A002  # ... whose frame counters are not zero
    # firmware boot defaults smaller than what bellows configures: every NCP reset forgets the configuration, so it has to be re-applied
    # after each of them or the tables the settings go into are too small
    ncp.config_default[0x1E] = 2  # CONFIG_KEY_TABLE_SIZE
    ncp.config_default[0x11] = 2  # CONFIG_MAX_END_DEVICE_CHILDREN
    viol, probes = [], {}

    def probe(n, k=1):
        probes[n] = probes.get(n, 0) + k

    # capabilities
    if V >= 9:
        if cap in (0, 4):
            ncp.nv3_restored_token = 0xE12A if V < 13 or tape.draw(2, "tok") == 0 else 0x1E12A
            if cap == 4:
                # the stick already runs with a custom EUI64 from an earlier restore (NV3 token set)
                ncp.nv3[(ncp.nv3_restored_token, 0)] = bytes([0xEE, 1, 2, 3, 4, 5, 6, 0x10])
                ncp._apply_eui64()
                probe("eui64.custom_before")
        elif cap == 2:
            ncp.has_token_data = False
            probe("token_api_missing")
    ev_delay = (0.0, 0.0, 0.002, 0.05)[tape.draw(4, "evdelay")] if scenario in ("random", "erase", "dropread", "dropwrite") else (0.0, 0.002)[params.get("tmpl", 0) % 2]
    ncp.cb_delay = lambda what: ev_delay
    if ev_delay == 0.0:
        probe("status_event_before_response")
    shim = OsShim(tape)
    appmod.os = shim
    st = {}
    ni, node, facts = make_settings(tape, params.get("tmpl"), ncp.eui64)
    written = copy.deepcopy(ni)
    if params.get("same_net") or (scenario == "random" and tape.draw(4, "same_net") == 3):
        # an older backup restored over the network the stick is running right now: same PAN / extended PAN, the stick's update ID, key
        # sequence and frame counters are all AHEAD of what is written - what is written is what must come back
        probe("restore_over_same_network")
        ncp.preform(pan_id=facts["pan"], channel=facts["channel"], epid=facts["epid"], nwk_key=facts["nkey"])
        ncp.net_params.nwkUpdateId = (facts["upd"] + 6) % 256
        ncp.sec["nwk_seq"] = (facts["nseq"] + 3) % 256

    async def main():
        app = await rig.start_app()
        kt_connect = ncp._key_table_size()  # what connect()'s configuration write left the NCP with
        if params.get("pre_round") is not None:
            if params.get("pre_small_table"):
                # ... on a stick whose firmware refuses to grow the key table (it stays at the boot default of 2): what was learnt about THAT
                # table says nothing about the table of the round trip under test
                probe("earlier_read_with_smaller_key_table")
                ncp.config_reject = {0x1E: "INVALID_CALL"}
            # the same application object has already been through one full write / read round trip (other settings, more link keys and
            # children): nothing of it may show up in the read-back under test
            probe("second_round_trip_on_one_application")
            ni0, node0, _f0 = make_settings(tape, params["pre_round"], ncp.eui64)
            await app.write_network_info(network_info=ni0, node_info=node0)
            await app._reset()
            await app.load_network_info(load_devices=True)
            ncp.sec_calls.clear()
            ncp.config_reject = set()
        st["eui_before"] = bytes(ncp.eui64)
        st["ktsize_configured"] = kt_connect
        dropw = params.get("drop_write")
        if scenario == "dropwrite":
            dropw = tape.draw(160, "drop_write")
        if dropw is not None:
            base_w = len(ncp.requests)
            orig_deliver_w = ncp.deliver

            def deliver_w(req, payload):
                if req.idx == base_w + dropw and not st.get("dropped_w"):
                    st["dropped_w"] = req.name  # never answered: the host's 10 s command timeout
                    return
                orig_deliver_w(req, payload)

            ncp.deliver = deliver_w
        try:
            await app.write_network_info(network_info=ni, node_info=node)
        except Exception as e:
            st["write"] = ("raised", repr(e))
            import traceback
            st["tb"] = traceback.format_exc()
            return
        finally:
            if dropw is not None:
                ncp.deliver = orig_deliver_w
        st["write"] = ("ok",)
        st["sec_calls"] = list(ncp.sec_calls)
        st["ncp_after_write"] = {"keys": dict(ncp.key_table), "ktsize": ncp._key_table_size(), "nwk_fc": ncp.nwk_fc, "aps_fc": ncp.aps_fc}
        erase = params.get("erase")
        if scenario == "erase":
            erase = tape.draw(8, "erase")
        nk = min(len(facts["keys"]), st["ncp_after_write"]["ktsize"])
        if erase is not None and nk >= 2:
            # a device whose link key sits in the table rejoins unsecured: the application erases that key (cleanup_tc_link_key), leaving a
            # free slot in front of later entries; everything else must still be read back
            st["erased"] = facts["keys"][erase % (nk - 1)]
            await app.cleanup_tc_link_key(eui(st["erased"][1]))
        # one more NCP reset between write and read (configuration is volatile, tokens are not)
        await app._reset()
        drop = params.get("drop_read")
        if scenario == "dropread":
            drop = tape.draw(120, "drop_read")
        if drop is not None:
            base = len(ncp.requests)
            orig_deliver = ncp.deliver

            def deliver(req, payload):
                if req.idx == base + drop:
                    st["dropped"] = req.name  # the NCP never answers this one: the host's 10 s command timeout
                    return
                orig_deliver(req, payload)

            ncp.deliver = deliver
        try:
            await app.load_network_info(load_devices=True)
        except Exception as e:
            st["read"] = ("raised", repr(e))
            import traceback
            st["tb"] = traceback.format_exc()
            return
        st["read"] = ("ok",)
        st["net"] = app.state.network_info
        st["node"] = app.state.node_info

    outcome, val = rig.run(main())
    tag = f"v{V} cap={cap}"
    if outcome != "done":
        viol.append(("C14.rt", "sim-" + outcome, f"{tag}: simulation ended with {outcome}: {val!r}"))
    elif st.get("write", ("",))[0] != "ok" and st.get("dropped_w"):
        probe("write_failed_on_unanswered_command")  # allowed under a fault; a write that reports success is held to the round trip below
    elif st.get("write", ("",))[0] != "ok":
        viol.append(("C14.rt", "write-raised", f"{tag}: write_network_info raised {st['write'][1]}; {st.get('tb', '')[-400:]}"))
    elif st.get("read", ("",))[0] != "ok" and st.get("dropped"):
        probe("read_failed_on_unanswered_command")  # allowed: an operation may fail under a fault, it must not return wrong data
    elif st.get("read", ("",))[0] != "ok":
        viol.append(("C14.rt", "read-raised", f"{tag}: load_network_info raised {st['read'][1]}; {st.get('tb', '')[-400:]}"))
    else:
        if st.get("dropped_w"):
            probe("write_returned_despite_unanswered_command")
            tag += f" (write command {st['dropped_w']} never answered, write_network_info returned normally)"
        if st.get("dropped"):
            probe("read_returned_despite_unanswered_command")
            tag += f" (read-back command {st['dropped']} never answered)"
        net, nd = st["net"], st["node"]
        f = facts

        def ne(key, what, got, want):
            if got != want:
                viol.append(("C14.rt", key, f"{tag}: {what} read back as {got!r}, written {want!r}"))

        ne("pan_id", "PAN ID", int(net.pan_id), f["pan"])
        ne("extended_pan_id", "extended PAN ID", bytes(net.extended_pan_id.serialize()), f["epid"])
        ne("channel", "channel", int(net.channel), f["channel"])
        ne("channel_mask", "channel mask", int(net.channel_mask), f["mask"])
        if not (f["mask"] >> f["channel"]) & 1:
            probe("mask_without_channel")
        ne("nwk_update_id", "update ID", int(net.nwk_update_id), f["upd"])
        ne("network_key", "network key", bytes(net.network_key.key.serialize()), f["nkey"])
        ne("network_key_seq", "network key sequence number", int(net.network_key.seq), f["nseq"])
        if V >= 5:
            ne("network_key_counter", "network key frame counter", int(net.network_key.tx_counter), f["nfc"])
        ne("tclk", "trust-centre link key", bytes(net.tc_link_key.key.serialize()), WELL_KNOWN)
        sent_hashed = None
        if V >= 5:
            hk = (net.stack_specific.get("ezsp") or {}).get("hashed_tclk")
            if f["hashed_hex"] is not None:
                probe("hashed_tclk.given")
                want_h = f["hashed_hex"]
            else:
                probe("hashed_tclk.generated")
                want_h = shim.calls[0].hex() if shim.calls else None
                if want_h is None:
                    viol.append(("C14.rt", "hashed-tclk-not-generated", f"{tag}: no hashed TCLK supplied and none generated"))
            sent_hashed = want_h
            if hk != want_h:
                viol.append(("C14.rt", "hashed_tclk", f"{tag}: hashed TCLK read back as {hk!r}, written {want_h!r}"))
        else:
            # v4 has no hashed trust-centre link key: whatever hashed form the read reports must be one that was written, never one made up
            # (a backup claiming the plain link key as its 'hashed' form is restored as such on a v5+ stick)
            hk = (net.stack_specific.get("ezsp") or {}).get("hashed_tclk")
            if hk is not None and hk != f["hashed_hex"]:
                viol.append(("C14.rt", "hashed_tclk", f"{tag}: hashed TCLK read back as {hk!r} from a v4 NCP that does not use one (written {f['hashed_hex']!r})"))
        # link keys (up to the configured table size)
        cap_n = st["ktsize_configured"]
        if st["ncp_after_write"]["ktsize"] < cap_n:
            viol.append(("C14.rt", "config-not-reapplied", f"{tag}: the key table had {cap_n} entries after connect(); when the settings were written the NCP was back at "
                         f"{st['ncp_after_write']['ktsize']} (configuration lost with a reset and not written again)"))
        want_keys = [k for k in f["keys"][:cap_n] if k != st.get("erased")]
        if st.get("erased"):
            probe("link_keys.gap_in_table")
        if len(f["keys"]) > cap_n:
            probe("link_keys.over_capacity")
        if f["keys"]:
            probe("link_keys.some")
        got_keys = [(bytes(k.key.serialize()), bytes(k.partner_ieee.serialize())) for k in net.key_table]
        if sorted(got_keys) != sorted(want_keys):
            missing = [k for k in want_keys if k not in got_keys]
            extra = [k for k in got_keys if k not in want_keys]
            viol.append(("C14.rt", "key_table", f"{tag}: link-key table read back with {len(got_keys)} entries, {len(want_keys)} written (table size {cap_n}); missing {[(a.hex()[:8], b.hex()) for a, b in missing[:3]]}, unexpected {[(a.hex()[:8], b.hex()) for a, b in extra[:3]]}"))
        if V >= 9:
            if f["children"]:
                probe("children.some")
            got_children = {bytes(e.serialize()): int(net.nwk_addresses.get(e, 0xFFFF)) for e in net.children}
            if got_children != f["children"]:
                viol.append(("C14.rt", "children", f"{tag}: child table read back as {got_children}, written {f['children']}"))
        # EUI64 (only when it could be rewritten)
        fac = bytes(ncp.factory_eui64)
        rewritable = ncp.nv3_restored_token is not None and ncp.has_token_data
        if f["node_ieee"] is None:
            probe("eui64.unknown")
        elif rewritable or f["node_ieee"] == fac:
            probe("eui64.same" if f["node_ieee"] == st["eui_before"] else "eui64.rewritten_nv3")
            ne("ieee", "node IEEE address", bytes(nd.ieee.serialize()), f["node_ieee"])
        else:
            probe("eui64.not_rewritable")
        # C14.sec
        calls = st["sec_calls"]
        if len(calls) != 1:
            viol.append(("C14.sec", "calls", f"{tag}: setInitialSecurityState sent {len(calls)} times"))
        else:
            s = calls[0]
            bm = int(s.bitmask)
            if bytes(s.networkKey.serialize()) != f["nkey"] or int(s.networkKeySequenceNumber) != f["nseq"]:
                viol.append(("C14.sec", "network-key", f"{tag}: security state carries network key {bytes(s.networkKey.serialize()).hex()} seq {int(s.networkKeySequenceNumber)}, settings have {f['nkey'].hex()} seq {f['nseq']}"))
            want_pre = bytes.fromhex(sent_hashed) if (V >= 5 and sent_hashed) else WELL_KNOWN
            if bytes(s.preconfiguredKey.serialize()) != want_pre:
                viol.append(("C14.sec", "preconfigured-key", f"{tag}: security state carries preconfigured key {bytes(s.preconfiguredKey.serialize()).hex()}, expected {want_pre.hex()}"))
            if bool(bm & 0x0084 == 0x0084) != (V >= 5):
                viol.append(("C14.sec", "hashed-flag", f"{tag}: TRUST_CENTER_USES_HASHED_LINK_KEY is {'set' if bm & 0x0084 == 0x0084 else 'clear'} in {bm:#06x}"))
            fixed = 0x0100 | 0x0800 | 0x0004 | 0x0200 | 0x1000
            if bm & fixed != fixed:
                viol.append(("C14.sec", "fixed-flags", f"{tag}: security bitmask {bm:#06x} lacks some of HAVE_PRECONFIGURED_KEY|REQUIRE_ENCRYPTED_KEY|TRUST_CENTER_GLOBAL_LINK_KEY|HAVE_NETWORK_KEY|NO_FRAME_COUNTER_RESET"))
            # the TC address is supplied unless the settings carried none and the EUI64 was rewritten (otherwise bellows fills in the NCP's own address)
            # (the write starts by clearing the custom EUI64, so "the NCP's own address" is the factory one from then on)
            rewritten = f["node_ieee"] is not None and f["node_ieee"] != fac and rewritable
            tc_supplied = not (rewritten and f["tc_unknown"])
            field = bytes(s.preconfiguredTrustCenterEui64.serialize())
            if bool(bm & 0x0040) != tc_supplied:
                viol.append(("C14.sec", "tc-eui64-flag", f"{tag}: HAVE_TRUST_CENTER_EUI64 is {'set' if bm & 0x0040 else 'clear'} although a trust-centre address was {'supplied' if tc_supplied else 'not supplied'} (field {field.hex()})"))
            if tc_supplied:
                want_tc = f["node_ieee"] if rewritten else fac
                if field != want_tc:
                    viol.append(("C14.sec", "tc-eui64-value", f"{tag}: security state carries trust-centre address {field.hex()}, expected {want_tc.hex()}"))
            else:
                probe("tc_address.unknown")
                if field != bytes(8):
                    viol.append(("C14.sec", "tc-eui64-value", f"{tag}: no trust-centre address supplied but the field is {field.hex()}"))
    desc = (V, cap, ev_delay, repr(sorted((k, repr(v)) for k, v in facts.items())))
    sig = hashlib.blake2b(repr(desc).encode(), digest_size=8).digest()
    res = {"viol": viol, "faults": {"ncp_reset": ncp.resets}, "probes": probes, "vt": loop.time(), "iters": loop.iters, "sig": sig, "nontrivial": True,
           "digest": hashlib.sha256(repr((rig.log[-300:], loop.time(), loop.iters, desc)).encode()).hexdigest()[:16],
           "sample": {"V": V, "capability": cap, "pan": facts["pan"], "channel": facts["channel"], "link_keys": len(facts["keys"]), "children": len(facts["children"]),
                      "hashed_tclk_given": facts["hashed_hex"] is not None, "ncp_resets": ncp.resets, "commands": len(ncp.requests), "write": st.get("write"), "read": st.get("read")}}
    if detail:
        res["trace"] = [repr(e) for e in rig.log[-200:]]
    return res
