"""C10 - NCP failure or connection loss at any moment is reported and never hangs (engine E3)."""
import asyncio
import hashlib

import bellows.types as t
from bellows.exception import EzspError

from .. import e3
from .. import refash as R
from ..ncpmodel import St as ncp_St
from ..tape import NullTape

ID = "C10"
LEVEL = "fault_enumeration"
ENGINE = "E3 stack"
TECHNIQUE = ("deterministic simulation with fault enumeration: a dry run records every wire event of each scripted workload; every failure kind is then "
             "injected before and after every recorded event on the real stack in virtual time; seeded runs add injection exactly at pending timer "
             "deadlines with tape-chosen ordering/batching of the coinciding loop callbacks"
             ' The whole-stack soak (dst/soak.py: one ControllerApplication object through several connect/traffic/failure/reconnect epochs) is a further seeded scenario of this check.')
LEVEL_TEXT = ("complete sweep of failure kind {ERROR(code), unsolicited RSTACK(code != software), silent NCP, connection_lost(exc), EOF, deliberate close} x "
              "injection point {before, after} every wire event of five scripted workloads (idle, one command in flight, one in flight + three queued, "
              "reset in progress, start-up reset on a socket path), each event in its own loop iteration; seeded runs inject at timer deadlines with "
              "batched/reordered same-instant callbacks")
COMPONENTS = {"real": e3.COMPONENTS["real"] + ["threaded scenario: bellows.thread.EventLoopThread + ThreadsafeProxy (uart.connect(use_thread=True)) on two real threads"],
              "simulated": e3.COMPONENTS["simulated"] + ["threaded scenario: both loops and the thread schedule (dst.threads)"]}
RULE = ("sweep: (workload, failure kind/code, injection instant) for every instant just before/after a wire event of the workload's fault-free run; random: "
        "workload, kind and instant (uniform or exactly at a pending timer deadline) drawn from the tape with the scheduler free to batch/reorder. "
        "Every injection is a fault, so every run is non-trivial; distinct = distinct (workload, kind, code, instant) cells.")
ASSUMPTIONS = [
    "a silent NCP is a failure for the host only once detected: the report is demanded once a DATA frame written after the silence began has exhausted its retries; while a reset handshake is in progress no DATA frame can be sent and the TimeoutError of the reset call is accepted instead",
    "the report may arrive more than once",
    "protocol callbacks may raise in these situations (e.g. ACK for a DATA frame that follows an ERROR frame in the same read: transport already closed); the transport contract turns that into a harmless second connection_lost; counted as a probe",
    "bound for calls in progress: 10 s command timeout + 16 s (five ACK timeouts of at most 3.2 s) + 0.5 s slack after the injection",
]
PROBES = ["faulty_link_before_injection", "failure_frame_destroyed_by_line", "threaded.runs", "threaded.preempted_in_proxy", "kind.error", "kind.rstack", "kind.silent", "kind.lost", "kind.eof", "kind.close", "workload.idle", "workload.one", "workload.queued",
          "workload.reset", "workload.startup", "workload.scan", "reported", "reported_twice", "silent_detected_by_retries", "silent_during_reset_timeout", "silent_but_nak.nak", "silent_but_nak.naklast", "silent_but_chatty",
          "data_received_raised", "inject_at_timer_deadline", "calls_in_progress_at_injection", "caller_cancelled_after_injection", "failure_before_registration", "failure_glued_to_response", "serial_style_transport", "second_connection_of_one_ezsp_object", "registry_history.overlap", "registry_history.churn", "registry_history.both", "command_after_report_raised_other_than_ezsp_error", "sched.batch", "sched.reorder", "sched.join"]

WORKLOADS = ("idle", "one", "queued", "reset", "startup", "scan")
KINDS = ("error", "rstack", "silent", "lost", "eof", "close")
ERR_CODES = (0x51, 0x85, 0x80, 0x02, 0x00, 0x52)  # (0x85, 0x52: codes that are not named members of bellows' enumeration; 0x00: the falsy one)
RST_CODES = (0x02, 0x83, 0x03, 0x00, 0x06, 0x09, 0x80, 0x33, 0x51)
BOUND = 26.5


def _dry_times(workload):
    res = run_one(workload, None, None, None, NullTape(), False, False, dry=True)
    return res["times"]


def plan(tier):
    sweeps = []
    npts = 0
    for w in WORKLOADS:
        times = _dry_times(w)
        pts = sorted({round(x - 0.0002, 6) for x in times} | {round(x + 0.0002, 6) for x in times})
        npts += len(pts)
        for at in pts:
            for kind in KINDS:
                if kind == "error":
                    codes = ERR_CODES[:2] if tier == "quick" else ERR_CODES
                elif kind == "rstack":
                    codes = RST_CODES[:2] if tier == "quick" else RST_CODES
                else:
                    codes = (None,)
                for c in codes:
                    sweeps.append(("inject", {"workload": w, "kind": kind, "code": c, "at": at, "sched": False}))
                if kind in ("error", "rstack", "lost", "eof", "close") and w in ("idle", "one") and at in pts[:3]:
                    # the same failure after an earlier one that went unheard (before the application registered)
                    sweeps.append(("inject", {"workload": w, "kind": kind, "code": codes[0], "at": at, "sched": False, "prefail": True}))
                if kind != "silent" and w in ("idle", "one") and at in pts[1:3]:
                    # the same failure after the callback registry went through a history around the application's registration
                    for h in HISTORIES[1:]:
                        sweeps.append(("inject", {"workload": w, "kind": kind, "code": codes[0], "at": at, "sched": False, "hist": h}))
                if kind in ("error", "rstack") and w in ("idle", "one") and at in pts[1:4]:
                    # a serial-style transport (an exception out of data_received goes to the loop's exception handler, the port stays open) and
                    # codes outside bellows' enumeration: the failure is reported by the code path itself, not by a transport that tears down
                    for c in (ERR_CODES[1], ERR_CODES[5]) if kind == "error" else (RST_CODES[1], RST_CODES[7]):
                        sweeps.append(("inject", {"workload": w, "kind": kind, "code": c, "at": at, "sched": False, "swallow": True}))
                if kind != "close" and w in ("idle", "one") and at in pts[1:6:2]:
                    # the same failure on the SECOND connection of one EZSP object (connect, deliberate close, connect again)
                    sweeps.append(("inject", {"workload": w, "kind": kind, "code": codes[0], "at": at, "sched": False, "reconnect": True}))
                if kind == "silent" and w in ("idle", "one", "queued") and at in pts[::3]:
                    # an NCP that stops acknowledging without going quiet: every DATA frame (or only the last copy of one) is answered with a NAK
                    for deaf in ("nak", "naklast", "chatty"):
                        sweeps.append(("inject", {"workload": w, "kind": kind, "code": None, "at": at, "sched": False, "deaf": deaf}))
                if kind == "silent" and w in ("idle", "one", "queued"):
                    # the callers give up (are cancelled) while the link layer is still retrying: the failure must be reported all the same
                    for ca in (2.0, 12.0):
                        sweeps.append(("inject", {"workload": w, "kind": kind, "code": None, "at": at, "sched": False, "cancel_after": ca}))
    # the failure frame glued to the response of the scan command (one read)
    for kind, code in (("error", ERR_CODES[0]), ("rstack", RST_CODES[0]), ("error", ERR_CODES[1])):
        sweeps.append(("inject", {"workload": "scan", "kind": kind, "code": code, "at": 1e9, "sched": False, "glue": True}))
    # directed timer ties: the failure lands exactly on a pending deadline (reset timeout, command timeout, ACK timeout) and both
    # callbacks run in ONE loop iteration, in either order (this is the schedule on which F5 fired)
    for w in ("reset", "startup", "one", "queued"):
        for kind, code in (("lost", None), ("eof", None), ("error", ERR_CODES[0]), ("rstack", RST_CODES[0])):
            for idx in range(3):
                for order in (0, 1):
                    sweeps.append(("inject", {"workload": w, "kind": kind, "code": code, "at": ["timer", idx], "sched": {"batch": 1, "join": 1, "order": order}}))
                    if w in ("reset", "startup") and idx == 0:
                        # an NCP that takes longer than the reset timeout to answer the RST: the failure coincides with the 5 s reset timeout itself
                        sweeps.append(("inject", {"workload": w, "kind": kind, "code": code, "at": ["timer", idx], "rst_delay": 6.0,
                                                  "sched": {"batch": 1, "join": 1, "order": order}}))
    return {
        "sweeps": sweeps,
        "exhaustive": f"failure kind x code x {npts} injection instants (just before/after every wire event of the 5 scripted workloads), each event in its own loop iteration",
        "random": [("random", {}, 3), ("history", {}, 1), ("threaded", {}, 1), ("faulty", {}, 1), ("soak", {}, 1)],
        "runs": 1900 if tier == "quick" else None,
        "budget_s": 60 if tier == "quick" else 900,
        "batch": 25,
        "sweep_batch": 40,
    }


def run(scenario, params, tape, detail=False):
    if scenario == "soak":
        # the whole-stack soak (dst/soak.py): one application object through several connection epochs with traffic, failures and
        # reconnects; this check reports the clauses of its own property from it
        from .. import soak

        return soak.run(params, tape, detail=detail)
    if scenario == "threaded":
        return run_threaded_one(params, tape, detail)
    if scenario == "inject":
        return run_one(params["workload"], params["kind"], params["code"], params["at"], tape, params.get("sched", True), detail, cancel_after=params.get("cancel_after"),
                       prefail=params.get("prefail", False), rst_delay=params.get("rst_delay", 0.3), hist=params.get("hist"), deaf=params.get("deaf"), reconnect=params.get("reconnect", False), swallow=params.get("swallow", False), glue=params.get("glue", False))
    w = WORKLOADS[tape.draw(len(WORKLOADS), "workload")]
    kind = KINDS[tape.draw(len(KINDS), "kind")]
    code = None
    if kind == "error":
        code = ERR_CODES[tape.draw(len(ERR_CODES), "code")]
    elif kind == "rstack":
        code = RST_CODES[tape.draw(len(RST_CODES), "code")]
    prefail = kind != "silent" and scenario not in ("faulty", "history") and tape.draw(5, "prefail") == 4
    hist = HISTORIES[1 + tape.draw(len(HISTORIES) - 1, "hist")] if scenario == "history" else None
    deaf = (None, "nak", "naklast", "chatty")[tape.draw(4, "deaf")] if kind == "silent" and scenario == "random" else None
    reconnect = scenario == "random" and not prefail and tape.draw(4, "reconnect") == 3
    return run_one(w, kind, code, ("draw",), tape, True, detail, faulty=(scenario == "faulty"), prefail=prefail, hist=hist, deaf=deaf, reconnect=reconnect)


CANCEL_AFTER = (0.3, 1.0, 2.5, 6.0, 11.0, 13.0)
# what happened to EZSP's callback registry around the moment the application registered ("once an application callback is registered"
# must not depend on who else registered or unregistered before, meanwhile or afterwards):
#   overlap  the application registers while a scan (a list command holding a temporary callback) is running; scans follow
#   churn    other parties register and unregister callbacks before and after the application does
#   both     overlap, then churn
HISTORIES = (None, "overlap", "churn", "both")


def run_one(workload, kind, code, at, tape, sched, detail, dry=False, faulty=False, cancel_after=None, prefail=False, rst_delay=0.3, hist=None, deaf=None, reconnect=False, swallow=False, glue=False):
    sock = workload == "startup"
    if faulty:
        # link faults (and read chunking, NCP window) until the injection; the failure itself is then delivered over a clean line
        from ..line import FaultPlan

        plan_ = FaultPlan.swarm(tape)
        plan_.on = False
        rig = e3.StackRig(tape, version=(4, 8, 13, 14)[tape.draw(4, "V")], path="socket://sim:1" if sock else "/dev/ttySIM", sched=sched, plan=plan_,
                          K=1 + tape.draw(3, "K"), max_iters=300_000)
        rig.line.ties = False
    else:
        plan_ = None
        rig = e3.StackRig(tape, version=8, path="socket://sim:1" if sock else "/dev/ttySIM", sched=sched, fast_line=True, chunking=False, max_iters=300_000)
    loop, ncp, nash = rig.loop, rig.ncp, rig.ncp_ash
    viol, probes = [], {}

    def probe(n, k=1):
        probes[n] = probes.get(n, 0) + k

    reports = []  # (t, args, n_host_writes, running)
    calls = []  # dict(name, task, t0, t_end, outcome)
    st = {"t_ready": None, "t_inj": None}
    delays = {}

    def deliver(req, payload):
        d = delays.get(req.name, 0.0)
        req.nrsp += 1
        ncp.emit(payload, d, "rsp", req.seq)
        if glue and req.name == "startScan" and st["t_inj"] is None and st.get("t_ready") is not None:
            # the NCP fails right after answering: its failure frame reaches the host glued to the response, in ONE read
            probe("failure_glued_to_response")
            inject()

    ncp.deliver = deliver

    def tracked(name, coro):
        c = {"name": name, "t0": loop.time(), "t_end": None, "outcome": None}

        async def wrap():
            try:
                r = await coro
                c["outcome"] = ("ok", r)
            except asyncio.CancelledError:
                c["outcome"] = ("cancelled",)
                raise
            except BaseException as e:
                c["outcome"] = ("raised", e)
            finally:
                c["t_end"] = loop.time()

        c["task"] = loop.create_task(wrap(), name=name)
        calls.append(c)
        return c

    def inject():
        if plan_ is not None:
            plan_.stop()
            rig.line._latency = lambda: 0.001
            # bytes the faulty line is still holding back (stalls of up to seconds) would otherwise arrive long after the NCP died,
            # which no serial line does: the bound is measured from the failure on a line that is quiet from then on
            rig.line.n2h.clear()
            rig.line.h2n.clear()
        st["t_inj"] = loop.time()
        st["writes_at_inj"] = len(rig.host_writes)
        st["in_progress"] = [c for c in calls if c["t_end"] is None]
        if st["in_progress"]:
            probe("calls_in_progress_at_injection")
        rig.log.append((loop.time(), "INJECT", kind, code))
        if kind == "error":
            if nash.failed is not None:
                nash.emit(R.f_error(code), "error")  # an NCP that is already in its ERROR state says so again
            else:
                nash.force_error(code)
        elif kind == "rstack":
            nash.do_reset(code)
        elif kind == "silent" and deaf == "chatty":
            # the NCP stops ACKNOWLEDGING (its receive side is stuck) but is not mute: it keeps sending new in-sequence DATA frames
            # (callbacks, ackNum frozen), closer together than the acknowledgement timeout, and the host dutifully acknowledges them
            probe("silent_but_chatty")
            nash.deaf = True
            nash._cancel_ack_timer()

            def chatter(n=[0]):
                if nash.failed is None and rig.transport is not None and not rig.transport.lost_called and n[0] < 400:
                    n[0] += 1
                    ncp.callback("stackStatusHandler", (ncp_St("NETWORK_UP"),))
                    loop.external(loop.time() + 0.3, chatter, group=None)

            loop.external(loop.time() + 0.05, chatter, group=None)
        elif kind == "silent":
            nash.silent = True
            nash.silent_mode = deaf
            if deaf:
                probe("silent_but_nak." + deaf)
            nash._cancel_ack_timer()
        elif kind == "lost":
            st["exc"] = ConnectionResetError("simulated loss")
            rig.transport.inject_lost(st["exc"])
        elif kind == "eof":
            rig.transport.inject_eof()
        elif kind == "close":
            rig.ezsp.close()

    async def main():
        ez = await rig.connect()
        if sock:
            await ez.startup_reset()
        else:
            await ez.startup_reset()

        def cb(name, args):
            if name == "_reset_controller_application":
                reports.append((loop.time(), args, len(rig.host_writes), ez.is_ezsp_running))
                rig.log.append((loop.time(), "REPORT", repr(args)))

        if prefail and not dry:
            # an earlier failure that nobody was listening for: ERROR before the application registered (ignored by design), no reset since
            probe("failure_before_registration")
            nash.force_error(0x51)
            await asyncio.sleep(0.05)
        if hist and not dry:
            probe("registry_history." + hist)

            def scan():
                return ez.startScan(scanType=t.EzspNetworkScanType.ENERGY_SCAN, channelMask=t.Channels.from_channel_list([11, 15]), duration=1)

            others = []
            if hist in ("churn", "both"):
                others.append(ez.add_callback(lambda *a: None))
                others.append(ez.add_callback(lambda *a: None))
                ez.remove_callback(others.pop(0))
            if hist in ("overlap", "both"):
                running = loop.create_task(scan(), name="scan-during-registration")
                await asyncio.sleep(0.004)  # the scan's temporary callback is registered, its results are still to come
                ez.add_callback(cb)
                await running
                await scan()
                await scan()
            else:
                ez.add_callback(cb)
            if hist in ("churn", "both"):
                ids = [ez.add_callback(lambda *a: None) for _ in range(3)]
                for i in (ids[1], others.pop(), ids[0]):
                    ez.remove_callback(i)
                await scan()
                ez.remove_callback(ids[2])
        else:
            ez.add_callback(cb)
        st["t_plain"] = loop.time()
        if glue:
            rig.line.n2h.coalesce = lambda: True  # frames due at the same instant are handed over in one read
        if swallow:
            probe("serial_style_transport")
            rig.transport.swallow_protocol_errors = True
        if reconnect and not dry:
            # one EZSP object, two connections: a deliberate close, then connect() and bring-up again on the same object
            probe("second_connection_of_one_ezsp_object")
            ez.close()
            await asyncio.sleep(0.5)
            if reports:
                viol.append(("C10.quiet", "report-after-close", f"{workload}/{kind}: the deliberate close() before the reconnect produced a controller-reset request"))
            await ez.connect(use_thread=False)
            await ez.startup_reset()
            nash_now = rig.ncp_ash
            assert nash_now is nash
        await asyncio.sleep(0.1)
        st["t_ready"] = loop.time()
        t0 = loop.time()
        if plan_ is not None:
            plan_.on = True
            probe("faulty_link_before_injection")
        # choose the injection instant
        if not dry:
            if isinstance(at, (list, tuple)) and at[0] == "timer":
                st["at_timer"] = True
                st["timer_idx"] = at[1]
                at_t = None
            elif at == ("draw",):
                span = {"idle": 1.0, "one": 1.0, "queued": 2.0, "reset": 1.5, "startup": 2.6, "scan": 1.8}[workload]
                if tape.draw(2, "at_timer"):
                    st["at_timer"] = True  # resolved below once the workload has armed its timers
                    at_t = None
                else:
                    at_t = t0 + span * tape.draw(1000, "at") / 1000.0
            else:
                at_t = at + (loop.time() - 0.1 - st["t_plain"])  # (instants of the dry run, shifted by what a reconnect added)
            if at_t is not None:
                loop.external(at_t, inject, group=None if sched and tape.draw(2, "grp") else "inject")
        # the workload
        if workload == "idle":
            pass
        elif workload == "one":
            delays["getValue"] = 0.5
            tracked("getValue", ez.getValue(valueId=t.EzspValueId.VALUE_FREE_BUFFERS))
        elif workload == "queued":
            delays.update({"getEui64": 0.5, "setSourceRoute": 0.05, "getValue": 0.05, "nop": 0.05})
            tracked("getEui64", ez.getEui64())
            await asyncio.sleep(0.01)
            tracked("setSourceRoute", ez.setSourceRoute(destination=0x1234, relayList=[]))
            tracked("getValue", ez.getValue(valueId=t.EzspValueId.VALUE_FREE_BUFFERS))
            tracked("nop", ez.nop())
        elif workload == "scan":
            # an operation that is completed by callbacks (results, then a completion frame) rather than by its command's response
            ncp.scan_step = 0.3
            tracked("scan", ez.startScan(scanType=t.EzspNetworkScanType.ENERGY_SCAN, channelMask=t.Channels.from_channel_list([11, 15, 20]), duration=1))
        elif workload == "reset":
            nash.rst_delay = rst_delay

            async def reset_then_version():
                await ez.reset()
                await ez.version()

            tracked("reset", reset_then_version())
        elif workload == "startup":
            nash.rst_delay = rst_delay

            async def app_reset():
                ez.stop_ezsp()
                await ez.startup_reset()

            tracked("startup_reset", app_reset())
        if st.get("at_timer"):
            await asyncio.sleep(0.001)
            whens = sorted({e[0] for e in loop._heap if not e[2]._cancelled and loop.time() < e[0] <= loop.time() + 12.0})
            if whens:
                probe("inject_at_timer_deadline")
                at_t = whens[st["timer_idx"] % len(whens)] if "timer_idx" in st else whens[tape.draw(len(whens), "which_timer")]
            else:
                at_t = loop.time() + 0.3
            loop.external(at_t, inject, group=None if tape.draw(2, "grp") else "inject")
        # after the injection: a probe command (gives a silent NCP something to fail on; checks C10.stopped otherwise)
        while st["t_inj"] is None and loop.time() < t0 + 20.0 and not dry:
            await asyncio.sleep(0.05)
        if dry:
            await asyncio.sleep(8.0)
            return
        if at == ("draw",) and tape.draw(2, "cancel?"):
            ca = CANCEL_AFTER[tape.draw(len(CANCEL_AFTER), "cancel_after")]
        else:
            ca = cancel_after
        if ca is not None:
            # callers that give up: every call still pending `ca` seconds after the injection is cancelled (some of them, in random mode)
            def cancel_callers():
                pend = [c for c in calls if c["t_end"] is None and c["name"] != "late-nop"]
                for c in pend:
                    if cancel_after is not None or tape.draw(3, "cancel_which"):
                        probe("caller_cancelled_after_injection")
                        c["task"].cancel()

            loop.external(st["t_inj"] + ca, cancel_callers, group=None)
        await asyncio.sleep(0.2)
        st["probe_writes"] = len(rig.host_writes)
        st["probe_running"] = rig.ezsp.is_ezsp_running
        st["probe_t"] = loop.time()
        pc = tracked("probe-nop", ez.nop())
        await asyncio.sleep(0)
        st["probe_immediate"] = pc["outcome"]
        st["probe_writes_after"] = len(rig.host_writes)
        await asyncio.sleep(45.0)
        # a second probe, well after everything settled
        st["late_writes"] = len(rig.host_writes)
        st["late_t"] = loop.time()
        pc2 = tracked("late-nop", ez.nop())
        await asyncio.sleep(30.0)
        st["late_outcome"] = pc2["outcome"]
        st["late_writes_after"] = len(rig.host_writes)

    outcome, val = rig.run(main())
    if dry:
        times = []
        for e in rig.log:
            if isinstance(e[0], float) and len(e) > 1 and e[0] >= st["t_ready"] and e[1] in ("host_tx", "line", "ncp_emit", "gw_send_data", "host_reset_received"):
                times.append(round(e[0], 6))
                if e[1] == "line":
                    times.append(round(e[0] + 0.001, 6))  # its delivery
        times += [round(st["t_ready"] + 0.05, 6)]
        if workload == "startup":
            times += [round(st["t_ready"] + 0.5, 6), round(st["t_ready"] + 1.0, 6)]
        return {"times": sorted(set(times)), "viol": [], "outcome": outcome}
    tag = f"{workload}/{kind}" + (f"({code})" if code is not None else "") + (f" at t={st['t_inj']:.4f}" if st["t_inj"] is not None else "")
    probe("kind." + kind)
    probe("workload." + workload)
    if outcome != "done":
        viol.append(("C10.bounded", "sim-" + outcome, f"{tag}: simulation ended with {outcome}: {val!r}"))
    elif st["t_inj"] is None:
        pass  # the injection instant fell after the observation window (random mode)
    else:
        t_inj = st["t_inj"]
        rep_after = [r for r in reports if r[0] >= t_inj - 1e-9]
        if kind == "close":
            if rep_after:
                viol.append(("C10.quiet", "report-after-close", f"{tag}: a deliberate close() produced a controller-reset request at t={rep_after[0][0]:.4f}"))
        else:
            # was the failure detectable by the host?
            detected_by = None
            if kind in ("error", "rstack", "lost", "eof"):
                detected_by = t_inj + 0.01
                # the frame cannot be delivered if the host had already closed the transport
                if faulty and kind in ("error", "rstack") and not any(tt >= t_inj - 1e-9 and fr[0] == kind and fr[1] == code for (tt, fr) in rig.mon.rx_frames):
                    # faulty-line scenario only: the NCP failed in the middle of sending a frame; the host holds the head of that frame and the
                    # ERROR / RSTACK frame arrives glued to it, i.e. as one corrupt frame (answered with a NAK). The failure frame never reached
                    # the host intact, so there is nothing it could report yet (a line fault on top of the failure is outside the statement)
                    detected_by = None
                    probe("failure_frame_destroyed_by_line")
            elif kind == "silent":
                # a DATA frame written after the silence began that was transmitted ACK_TIMEOUTS times
                cnt = {}
                for (tt, frm, retx, payload) in rig.mon.data_tx:
                    if tt >= t_inj:
                        cnt[(frm, payload)] = cnt.get((frm, payload), 0) + 1
                if any(v >= 5 for v in cnt.values()):
                    detected_by = max(tt for (tt, frm, retx, payload) in rig.mon.data_tx) + 3.3
                    probe("silent_detected_by_retries")
                # The first DATA frame written after the silence began is never acknowledged: the link layer keeps retransmitting it whatever
                # its caller does (a cancelled caller does not take the frame back), so its retry budget is exhausted - and the failure
                # reported - no later than five maximal acknowledgement timeouts after its first transmission.
                first = [tt for (tt, frm, retx, payload) in rig.mon.data_tx if tt >= t_inj and not retx]
                if first:
                    t1 = first[0]
                    okrep = [r for r in reports if r[0] <= t1 + 16.0 + 0.5]
                    if not okrep and loop.time() > t1 + 17.0:
                        n1 = sum(1 for (tt, frm, retx, payload) in rig.mon.data_tx if tt >= t1 and tt <= t1 + 16.5)
                        viol.append(("C10.report", "silent-not-detected-in-time", f"{tag}: the first DATA frame written after the NCP went silent (t={t1:.4f}) was transmitted "
                                     f"{n1} time(s) and no controller-reset request arrived within the link timeout (5 x 3.2 s); reports {[round(r[0], 3) for r in reports]}"))
            pre_closed = bool(reports and reports[0][0] < t_inj)
            if detected_by is not None and not rep_after and not pre_closed:
                # accepted alternative for a silent NCP during a reset handshake: handled below; for the other kinds: violation
                extra = f"; loop exception handler saw {rig.loop.exceptions[:2]}" if rig.loop.exceptions else ""
                viol.append(("C10.report", "not-reported", f"{tag}: the application never received a controller-reset request{extra}"))
            if detected_by is not None and kind != "silent" and rep_after and not pre_closed and rep_after[0][0] > t_inj + 1.0:
                # an ERROR / RSTACK frame, a read error or an EOF is there for the host to see at once: the request follows it, not some later
                # consequence of carrying on as if nothing had happened (a command sent into the dead link running out of retries)
                viol.append(("C10.report", "reported-late", f"{tag}: the controller-reset request came {rep_after[0][0] - t_inj:.3f}s after the failure reached the host "
                             f"(through {rep_after[0][1]!r}); commands issued meanwhile were written to the port"))
            if kind == "silent" and detected_by is None:  # (the destroyed-frame case above concerns the other kinds)
                # no DATA frame could exhaust its retries: only legitimate while a reset handshake kept EZSP stopped; the reset call must then time out
                rc = [c for c in calls if c["name"] in ("reset", "startup_reset")]
                timed_out = [c for c in rc if c["outcome"] and c["outcome"][0] == "raised" and isinstance(c["outcome"][1], TimeoutError)]
                if timed_out:
                    probe("silent_during_reset_timeout")
                elif [c for c in rc if c["outcome"] and c["outcome"][0] == "cancelled"]:
                    probe("silent_during_reset_caller_gave_up")  # the harness cancelled the reset call: EZSP stays stopped, nothing can be sent or detected
                elif not rep_after:
                    viol.append(("C10.report", "silent-undetected", f"{tag}: NCP went silent; no DATA frame exhausted its retries, no reset call timed out and nothing was reported (calls {[(c['name'], c['outcome'] and c['outcome'][0]) for c in calls]})"))
            if rep_after:
                probe("reported")
                if len(rep_after) > 1:
                    probe("reported_twice")
                tr, _args, nw, running = rep_after[0]
                if running:
                    viol.append(("C10.stopped", "running-at-report", f"{tag}: EZSP still marked running when the controller-reset request was delivered"))
                late = [(tt, fr) for (tt, fr, d) in rig.host_writes[nw:]]
                if late:
                    viol.append(("C10.silence", "write-after-report", f"{tag}: {len(late)} frame(s) written to the port after the report at t={tr:.4f}: {[(round(a, 4), b and b[0]) for a, b in late[:4]]}"))
                # C10.stopped: commands issued after the report raise EzspError at once and write nothing
                for nm, wb, wa, oc in (("probe", "probe_writes", "probe_writes_after", st.get("probe_immediate")), ("late", "late_writes", "late_writes_after", st.get("late_outcome"))):
                    if st[nm + "_t"] < tr:
                        continue  # issued before the report
                    # (the statement says "raise immediately", not which exception: EzspError normally; when a reset() that was pending at the
                    # failure completes afterwards it marks the closed EZSP 'running' again and the command fails on the missing gateway instead)
                    if oc is None or oc[0] != "raised":
                        viol.append(("C10.stopped", "command-after-report", f"{tag}: a command issued after the report did not raise immediately: {oc!r}"))
                    elif not isinstance(oc[1], EzspError):
                        probe("command_after_report_raised_other_than_ezsp_error")
                    if st.get(wa, 0) != st.get(wb, 0):
                        viol.append(("C10.stopped", "write-by-command-after-report", f"{tag}: a command issued after the report wrote to the port"))
        # C10.bounded
        for c in st.get("in_progress", []):
            if c["t_end"] is None:
                viol.append(("C10.bounded", "hang", f"{tag}: call {c['name']} in progress at the injection never ended"))
            elif c["t_end"] > t_inj + BOUND and kind != "close":
                viol.append(("C10.bounded", "late", f"{tag}: call {c['name']} in progress at the injection ended only {c['t_end'] - t_inj:.3f}s later ({c['outcome'] and c['outcome'][0]})"))
        for c in calls:
            if c["name"] in ("probe-nop", "late-nop") and c["t_end"] is None:
                viol.append(("C10.bounded", "probe-hang", f"{tag}: command {c['name']} issued after the injection never ended"))
    if rig.transport is not None and rig.transport.raised:
        probe("data_received_raised")
    for k, v in rig.probes().items():
        if k.startswith("sched."):
            probes[k] = probes.get(k, 0) + v
    at_key = round(st["t_inj"], 5) if st["t_inj"] is not None else None
    sig = hashlib.blake2b(repr((workload, kind, code, at_key)).encode(), digest_size=8).digest()
    fired = {"inject." + (kind or "none"): 1}
    if plan_ is not None:
        fired.update({k: v for k, v in plan_.fired.items() if not k.endswith(".deliver")})
    res = {"viol": viol, "faults": fired, "probes": probes, "vt": loop.time(), "iters": loop.iters, "sig": sig, "nontrivial": True,
           "digest": hashlib.sha256(repr((rig.log, [(c["name"], c["t_end"], c["outcome"] and c["outcome"][0]) for c in calls])).encode()).hexdigest()[:16],
           "sample": {"workload": workload, "kind": kind, "code": code, "t_inject": st["t_inj"], "reports": [(round(r[0], 4), repr(r[1])[:60]) for r in reports[:3]],
                      "calls": [(c["name"], c["outcome"] and (c["outcome"][0], type(c["outcome"][1]).__name__ if len(c["outcome"]) > 1 else None), c["t_end"]) for c in calls]}}
    if detail:
        res["trace"] = [repr(e) for e in rig.log[:400]]
    return res


def run_threaded_one(params, tape, detail=False):
    """The same failures with the stack split over two threads (uart.connect(use_thread=True)), thread schedule drawn from the tape."""
    import threading

    from ..e3t import ThreadedStackRig

    workload = params.get("workload") or ("idle", "one", "queued", "reset")[tape.draw(4, "workload")]
    kind = params.get("kind") or KINDS[tape.draw(len(KINDS), "kind")]
    code = None
    if kind == "error":
        code = ERR_CODES[tape.draw(len(ERR_CODES), "code")]
    elif kind == "rstack":
        code = RST_CODES[tape.draw(len(RST_CODES), "code")]
    rig = ThreadedStackRig(tape, version=(4, 8, 13)[tape.draw(3, "V")])
    viol, probes = [], {"threaded.runs": 1}

    def probe(n, k=1):
        probes[n] = probes.get(n, 0) + k

    reports, calls = [], []
    st = {"t_inj": None}
    delays = {}
    where = []  # (what, thread ident)

    def on_bind(r):
        def deliver(req, payload):
            req.nrsp += 1
            r.ncp.emit(payload, delays.get(req.name, 0.0), "rsp", req.seq)

        r.ncp.deliver = deliver

    rig.on_bind = on_bind

    async def main(rig, sched, loop):
        main_ident = threading.get_ident()
        st["main_ident"] = main_ident
        ez = await rig.connect()
        st["worker_ident"] = sched.ident.get("W1")
        wl = rig.loop  # the worker's loop
        await ez.startup_reset()
        for nm in ("frame_received", "enter_failed_state", "connection_lost"):
            orig = getattr(ez, nm)

            def w(*a, _o=orig, _n=nm, **k):
                where.append(("ezsp." + _n, threading.get_ident()))
                return _o(*a, **k)

            setattr(ez, nm, w)
        gw = rig.gw
        for nm in ("data_received", "connection_lost"):
            orig = getattr(gw, nm)

            def w2(*a, _o=orig, _n=nm, **k):
                where.append(("gateway." + _n, threading.get_ident()))
                return _o(*a, **k)

            setattr(gw, nm, w2)

        def cb(name, args):
            if name == "_reset_controller_application":
                reports.append((loop.time(), args, len(rig.host_writes), ez.is_ezsp_running, threading.get_ident()))

        ez.add_callback(cb)
        await asyncio.sleep(0.1)
        t0 = loop.time()

        def tracked(name, coro):
            c = {"name": name, "t0": loop.time(), "t_end": None, "outcome": None}

            async def wrap():
                try:
                    c["outcome"] = ("ok", await coro)
                except asyncio.CancelledError:
                    c["outcome"] = ("cancelled",)
                    raise
                except BaseException as e:  # noqa: BLE001
                    c["outcome"] = ("raised", e)
                finally:
                    c["t_end"] = loop.time()

            c["task"] = loop.create_task(wrap(), name=name)
            calls.append(c)
            return c

        def inject():
            st["t_inj"] = wl.time()
            st["in_progress"] = [c for c in calls if c["t_end"] is None]
            nash = rig.ncp_ash
            if kind == "error":
                nash.force_error(code)
            elif kind == "rstack":
                nash.do_reset(code)
            elif kind == "silent":
                nash.silent = True
                nash._cancel_ack_timer()
            elif kind == "lost":
                rig.transport.inject_lost(ConnectionResetError("simulated loss"))
            elif kind == "eof":
                rig.transport.inject_eof()

        at = t0 + (0.0005, 0.01, 0.1, 0.3, 0.6, 1.0)[tape.draw(6, "at")]
        if kind == "close":
            loop.call_at(at, lambda: (st.__setitem__("t_inj", loop.time()), st.__setitem__("in_progress", [c for c in calls if c["t_end"] is None]), ez.close()))
        else:
            wl.call_soon_threadsafe(lambda: wl.external(at, inject))
        if workload == "one":
            delays["getValue"] = 0.5
            tracked("getValue", ez.getValue(valueId=t.EzspValueId.VALUE_FREE_BUFFERS))
        elif workload == "queued":
            delays.update({"getEui64": 0.5, "setSourceRoute": 0.05, "getValue": 0.05, "nop": 0.05})
            tracked("getEui64", ez.getEui64())
            await asyncio.sleep(0.01)
            tracked("setSourceRoute", ez.setSourceRoute(destination=0x1234, relayList=[]))
            tracked("getValue", ez.getValue(valueId=t.EzspValueId.VALUE_FREE_BUFFERS))
            tracked("nop", ez.nop())
        elif workload == "reset":
            rig.ncp_ash.rst_delay = 0.3

            async def reset_then_version():
                await ez.reset()
                await ez.version()

            tracked("reset", reset_then_version())
        await asyncio.sleep(at - loop.time() + 0.2)
        st["probe_t"] = loop.time()
        st["probe_writes"] = len(rig.host_writes)
        pc = tracked("probe-nop", ez.nop())
        await asyncio.sleep(45.0)
        st["late_writes"] = len(rig.host_writes)
        st["late_t"] = loop.time()
        pc2 = tracked("late-nop", ez.nop())
        await asyncio.sleep(30.0)
        st["late_outcome"] = pc2["outcome"]
        st["late_writes_after"] = len(rig.host_writes)
        # where is every call that is still pending blocked?
        hung = {}
        for c in calls:
            if c["t_end"] is None:
                co, names = c["task"].get_coro(), []
                while co is not None and hasattr(co, "cr_code"):
                    names.append(co.cr_code.co_name)
                    co = co.cr_await
                hung[c["name"]] = names
        st["hung"] = hung
        st["worker_closed"] = wl.is_closed() or not wl.is_running()

    outcome, val = rig.run_threaded(main)
    sched = rig.sched
    tag = f"threaded {workload}/{kind}" + (f"({code})" if code is not None else "") + (f" at t={st['t_inj']:.4f}" if st["t_inj"] is not None else "")
    probe("kind." + kind)
    probe("workload." + workload)
    if sched.preemptions:
        probe("threaded.preempted_in_proxy", sched.preemptions)
    if outcome != "done":
        viol.append(("C10.bounded", "sim-" + outcome, f"{tag}: simulation ended with {outcome}: {val!r}"))
    elif st["t_inj"] is not None:
        t_inj = st["t_inj"]
        rep_after = [r for r in reports if r[0] >= t_inj - 1e-9]
        for (what, ident) in where:
            want = st["main_ident"] if what.startswith("ezsp.") else st["worker_ident"]
            if ident != want:
                viol.append(("C10.report", "wrong-thread", f"{tag}: {what} ran on the {'worker' if ident == st['worker_ident'] else 'main'} thread"))
                break
        if kind == "close":
            if rep_after:
                viol.append(("C10.quiet", "report-after-close", f"{tag}: a deliberate close() produced a controller-reset request"))
        else:
            detected = kind in ("error", "rstack", "lost", "eof")
            if kind == "silent":
                cnt = {}
                for (tt, frm, retx, payload) in rig.mon.data_tx:
                    if tt >= t_inj:
                        cnt[(frm, payload)] = cnt.get((frm, payload), 0) + 1
                detected = any(v >= 5 for v in cnt.values())
                if not detected:
                    rc = [c for c in calls if c["name"] == "reset" and c["outcome"] and c["outcome"][0] == "raised" and isinstance(c["outcome"][1], TimeoutError)]
                    if not rc and not rep_after:
                        viol.append(("C10.report", "silent-undetected", f"{tag}: NCP went silent; nothing exhausted its retries, no reset timed out, nothing reported"))
            pre_closed = bool(reports and reports[0][0] < t_inj)
            if detected and not rep_after and not pre_closed:
                viol.append(("C10.report", "not-reported", f"{tag}: the application never received a controller-reset request (main-loop exceptions {getattr(rig.main_loop, 'exceptions', [])[:2]}, worker-loop exceptions {getattr(rig.loop, 'exceptions', [])[:2]})"))
            if rep_after:
                probe("reported")
                tr, _a, nw, running, ident = rep_after[0]
                if ident != st["main_ident"]:
                    viol.append(("C10.report", "wrong-thread", f"{tag}: the controller-reset request was delivered on the worker thread"))
                if running:
                    viol.append(("C10.stopped", "running-at-report", f"{tag}: EZSP still marked running when the controller-reset request was delivered"))
                oc = st.get("late_outcome")
                if oc is None or oc[0] != "raised" or not isinstance(oc[1], EzspError):
                    viol.append(("C10.stopped", "command-after-report", f"{tag}: a command issued after the report did not raise EzspError: {oc!r}"))
                if st.get("late_writes_after") != st.get("late_writes"):
                    viol.append(("C10.stopped", "write-by-command-after-report", f"{tag}: a command issued after the report wrote to the port"))
        hung = st.get("hung", {})
        # F9 (DESIGN.md section 6): a command whose send was handed to the worker loop while force_stop() was shutting it down is never
        # completed (the worker loop stopped before running it); everything queued behind it waits on the semaphore forever
        orphaned = [n for n, names in hung.items() if names and names[-1] == "command"]
        behind = [n for n, names in hung.items() if names and names[-1] == "acquire"]
        f9 = bool(orphaned) and st.get("worker_closed") and len(orphaned) + len(behind) == len(hung)
        if f9:
            viol.append(("C10.bounded", "threaded-send-orphaned-by-force-stop",
                         f"{tag}: use_thread=True: command(s) {orphaned} handed their frame to the worker loop while force_stop() was stopping it; the send never completes "
                         f"and never times out, {behind} wait behind it for the command slot forever"))
        else:
            for c in st.get("in_progress", []):
                if c["t_end"] is None:
                    viol.append(("C10.bounded", "hang", f"{tag}: call {c['name']} in progress at the injection never ended (blocked in {hung.get(c['name'])})"))
                elif c["t_end"] > t_inj + BOUND and kind != "close":
                    viol.append(("C10.bounded", "late", f"{tag}: call {c['name']} in progress at the injection ended only {c['t_end'] - t_inj:.3f}s later"))
            for c in calls:
                if c["name"] in ("probe-nop", "late-nop") and c["t_end"] is None:
                    viol.append(("C10.bounded", "probe-hang", f"{tag}: command {c['name']} issued after the injection never ended (blocked in {hung.get(c['name'])})"))
    sstr = "".join(n[0] for n in sched.schedule)
    sig = hashlib.blake2b(repr(("threaded", workload, kind, code, st["t_inj"] and round(st["t_inj"], 4), sstr[:400])).encode(), digest_size=8).digest()
    res = {"viol": viol, "faults": {"inject." + kind: 1}, "probes": probes, "vt": sched.vt, "iters": sum(lp.iters for lp in sched.loops.values()), "sig": sig, "nontrivial": True,
           "digest": hashlib.sha256(repr((rig.log, sstr, [(c["name"], c["t_end"], c["outcome"] and c["outcome"][0]) for c in calls])).encode()).hexdigest()[:16],
           "sample": {"mode": "threaded", "workload": workload, "kind": kind, "code": code, "t_inject": st["t_inj"], "reports": len(reports), "thread_switches": sched.switches,
                      "preemptions_in_proxy": sched.preemptions, "schedule_head": sstr[:60],
                      "calls": [(c["name"], c["outcome"] and c["outcome"][0], c["t_end"]) for c in calls]}}
    if detail:
        res["trace"] = [f"schedule {sstr[:1500]}"] + [repr(e) for e in rig.log[:300]]
    return res
