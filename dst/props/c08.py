"""C08 - malformed or unexpected EZSP frames are contained (engine E3)."""
import asyncio
import hashlib

import bellows.types as t

from .. import e3
from .. import refezsp as Z
from ..ncpmodel import St, tables

ID = "C08"
LEVEL = "exploration"
ENGINE = "E3 stack"
TECHNIQUE = ("deterministic simulation: the reference NCP injects bad EZSP frames (inside valid ASH DATA frames) at drawn moments relative to "
             "pending commands on the real stack; complete sweep of all truncations of a frame set for every version, seeded mutations beyond")
LEVEL_TEXT = ("for every protocol version 4..14 every truncation of ~45 valid response/callback frames is injected both with no command pending and "
              "under the sequence number of a pending command (complete sweep); seeded runs add byte flips, frame-id and sequence substitution, empty "
              "and random frames at random moments of a command workload; exploration, since payload contents are sampled")
COMPONENTS = e3.COMPONENTS
RULE = ("sweep: (version, frame, mode idle|pending) x every truncation length; random: mutated/random frames around a running command workload. "
        "Non-trivial = the injected frame is not a well-formed frame that the receiving side should simply dispatch; distinct = distinct injected byte strings (per version and mode).")
ASSUMPTIONS = [
    "whether a payload 'decodes fully' is judged with bellows' own field types applied to the version's schema table (header parsing and frame-id lookup are independent); trailing bytes after a complete payload do not make a frame undecodable",
    "a frame carrying the pending command's sequence AND frame id with a decodable payload is a valid reply by construction and is not counted as a bad frame",
    "the pending command whose sequence number a bad frame used may itself time out; the clauses protect other and later commands",
    "a flipped byte inside a correctly framed reply changes the decoded value undetectably (EZSP has no checksum) and is not flagged",
]
PROBES = ["decodable_not_dispatched", "inject.truncated", "inject.empty", "inject.random", "inject.flip", "inject.fid_subst", "inject.seq_subst", "inject.unknown_id", "inject.repeated", "inject.stale_own_reply", "mode.renegotiate",
          "undecodable_ignored", "decodable_dispatched", "pending_seq_foreign_fid", "pending_seq_own_fid", "pending_call_timed_out_after_bad_frame",
          "after_command_ok", "pending_across_handler_switch", "loggers_at_debug", "inject.frame_control", "pending.version", "mode.idle", "mode.pending", "mode.wrap", "wrapped_onto_stale_sequence"]

VERSIONS = list(range(4, 15))
BASE = ["stackStatusHandler", "incomingMessageHandler", "messageSentHandler", "trustCenterJoinHandler", "childJoinHandler",
        "incomingRouteRecordHandler", "incomingRouteErrorHandler", "energyScanResultHandler", "networkFoundHandler", "scanCompleteHandler",
        "idConflictHandler", "counterRolloverHandler", "macPassthroughMessageHandler", "rawTransmitCompleteHandler", "pollHandler",
        "stackTokenChangedHandler", "timerHandler", "zigbeeKeyEstablishmentHandler", "switchNetworkKeyHandler", "incomingSenderEui64Handler",
        "getValue", "getConfigurationValue", "getEui64", "getNodeId", "nop", "version", "invalidCommand", "getNetworkParameters", "networkState",
        "readCounters", "getMulticastTableEntry", "setMulticastTableEntry", "sendUnicast", "getCurrentSecurityState", "getKey", "getKeyTableEntry",
        "getChildData", "lookupEui64ByNodeId", "getMfgToken", "getExtendedTimeout", "echo", "getAddressTableRemoteEui64", "setPolicy",
        "formNetwork", "leaveNetwork", "exportKey", "getTokenData"]


def plan(tier):
    sweeps = []
    for V in VERSIONS:
        for mode in ("idle", "pending"):
            for i in range(0, len(BASE), 6):
                sweeps.append(("trunc", {"V": V, "mode": mode, "frames": BASE[i:i + 6], "sched": False}))
        sweeps.append(("renegotiate", {"V": V, "sched": False}))
        for stale in ("undecodable", "timeout", "cancel"):
            sweeps.append(("wrap", {"V": V, "stale": stale, "sched": False}))
        if V in (4, 5, 8, 14):
            # every value of the frame-control byte of three valid frames - with bellows' loggers at DEBUG (as users run it when they look for
            # a problem) and at their normal level: what is logged never decides whether the receive entry point raises
            for dbg in (True, False):
                sweeps.append(("fcbytes", {"V": V, "debuglog": dbg, "sched": False}))
    return {
        "sweeps": sweeps,
        "exhaustive": "versions 4..14 x {no command pending, under a pending command's sequence} x every truncation (length 0..len-1, and the intact frame) of the base frame set present in that version",
        "random": [("random", {}, 6), ("soak", {}, 1)],
        "runs": 1500 if tier == "quick" else None,
        "budget_s": 60 if tier == "quick" else 900,
        "batch": 25,
        "sweep_batch": 4,
    }


def decodes(V, data):
    """(frame name | None, decodes_fully: bool) by header layout + schema table of version V."""
    _cmds, by_id = tables(V)
    lay = Z.layout_of(V)
    try:
        if lay == "legacy":
            seq, fid, body = data[0], data[2], data[3:]
        elif lay == "ext":
            seq, fid, body = data[0], data[4], data[5:]
        else:
            if len(data) < 5:
                return None, False, None
            seq, fid, body = data[0], data[3] | (data[4] << 8), data[5:]
    except IndexError:
        return None, False, None
    ent = by_id.get(fid)
    if ent is None:
        return None, False, seq
    name, _tx, rx = ent
    try:
        if isinstance(rx, dict):
            for ty in rx.values():
                _v, body = ty.deserialize(body)
        elif rx:
            _v, body = rx.deserialize(body)
    except Exception:
        return name, False, seq
    return name, True, seq


def sample_frame(ncp, V, name, tape, seq):
    """A valid frame of this name for version V: zero-valued fields with a few bytes varied, built by the NCP model."""
    fid, _tx, rx = ncp.cmds[name]
    body = bytearray(ncp.encode_body(rx, None))
    is_cb = name.endswith("Handler")
    hdr = Z.header(V, seq, fid, Z.FC_ASYNC_CB if is_cb else Z.FC_RESPONSE)
    return bytes(hdr) + bytes(body)


def run(scenario, params, tape, detail=False):
    if scenario == "soak":
        # the whole-stack soak (dst/soak.py); this check reports the clauses of its own property from it (nothing escapes a receive callback)
        from .. import soak

        return soak.run(params, tape, detail=detail)
    V = params["V"] if "V" in params else VERSIONS[tape.draw(len(VERSIONS), "V")]
    rig = e3.StackRig(tape, version=V, sched=params.get("sched", True), max_iters=800_000, fast_line=True, chunking=False)
    rig.line.ties = False
    loop, ncp = rig.loop, rig.ncp
    viol, probes = [], {}
    injected = []

    def probe(n, k=1):
        probes[n] = probes.get(n, 0) + k

    cbs = []
    raised = []
    hold = {"on": False, "reqs": []}

    def deliver(req, payload):
        if hold["on"] and req.name == hold.get("cmd", "getValue"):
            hold["reqs"].append((req, payload))
            return
        req.nrsp += 1
        ncp.emit(payload, 0.0, "rsp", req.seq)

    ncp.deliver = deliver
    ncp.version_deliver = deliver
    token = [0]

    def h_getEui64(req):
        token[0] += 1
        return (t.EUI64.deserialize(token[0].to_bytes(8, "little"))[0],)

    ncp.h_getEui64 = h_getEui64
    gv_fid = ncp.cmds["getValue"][0]

    async def main():
        ez = await rig.bringup()
        orig = ez.frame_received

        def frame_received(data):
            try:
                return orig(data)
            except BaseException as e:
                raised.append((loop.time(), bytes(data), repr(e)))
                raise

        ez.frame_received = frame_received
        ez.add_callback(lambda name, args: cbs.append((loop.time(), name, args)))

        async def inject_idle(data, what):
            """No command pending; the frame carries a sequence number no call has used."""
            n0 = len(cbs)
            nr = len(raised)
            ncp.emit(data, 0.0, "bad")
            await asyncio.sleep(0.2)
            name, ok, _seq = decodes(V, data) if data else (None, False, None)
            got = cbs[n0:]
            if len(raised) > nr:
                viol.append(("C08.noraise", "escaped", f"v{V}: EZSP.frame_received raised {raised[-1][2]} for {what} frame {data.hex()}"))
            if ok:
                # the statement only forbids callbacks for frames that do not decode; that a decodable frame IS dispatched (once) is C06.cb's subject.
                # What is demanded here: if anything is dispatched it is this frame, once.
                if len(got) == 1 and got[0][1] == name:
                    probe("decodable_dispatched")
                elif not got:
                    probe("decodable_not_dispatched")
                else:
                    viol.append(("C08.cbvalid", "wrong-callback", f"v{V}: {name} frame {data.hex()} ({what}) led to callbacks {[(g[1]) for g in got]}"))
            else:
                probe("undecodable_ignored")
                if got:
                    viol.append(("C08.cbvalid", "callback-for-bad-frame", f"v{V}: callback {got[0][1]}({got[0][2]}) invoked for {what} frame {data.hex()} which does not decode fully as a known frame (known as {name})"))

        async def inject_pending(make, what, repeat=1, cmd="getValue"):
            """A command is pending (its reply withheld): getValue, or the version query - frame ID 0x0000, the command in flight during every
            bring-up; the frame carries its sequence number (and may arrive more than once)."""
            hold["on"] = True
            hold["cmd"] = cmd
            hold["reqs"].clear()
            if cmd == "version":
                probe("pending.version")
                call = loop.create_task(ez._command("version", desiredProtocolVersion=ez.ezsp_version))
            else:
                call = loop.create_task(ez.getValue(valueId=t.EzspValueId.VALUE_FREE_BUFFERS))
            await asyncio.sleep(0.1)
            if not hold["reqs"]:
                viol.append(("C08.after", "request-lost", f"v{V}: getValue request did not reach the NCP"))
                call.cancel()
                hold["on"] = False
                return
            req, genuine = hold["reqs"][0]
            data = make(req.seq)
            n0, nr = len(cbs), len(raised)
            for _ in range(repeat):
                ncp.emit(data, 0.0, "bad")
            if repeat > 1:
                probe("inject.repeated")
                what = f"{what}, delivered {repeat} times"
            await asyncio.sleep(0.2)
            name, ok, seq = decodes(V, data) if data else (None, False, None)
            # an invalidCommand response under the pending sequence is a legitimate (negative) reply to any command
            own = name in (cmd, "invalidCommand") and seq == req.seq
            if len(raised) > nr:
                viol.append(("C08.noraise", "escaped", f"v{V}: EZSP.frame_received raised {raised[-1][2]} for {what} frame {data.hex()} (getValue pending under seq {req.seq})"))
            if call.done() and not own:
                r = call.result() if not call.cancelled() and call.exception() is None else call.exception()
                viol.append(("C08.nocross", "completed-by-foreign-frame", f"v{V}: pending {cmd} (seq {req.seq}) was completed ({r!r}) by {what} frame {data.hex()} (decoded as {name})"))
            if own:
                probe("pending_seq_own_fid")
            elif seq == req.seq:
                probe("pending_seq_foreign_fid")
            got = cbs[n0:]
            if got and not ok:
                viol.append(("C08.cbvalid", "callback-for-bad-frame", f"v{V}: callback {got[0][1]} invoked for {what} frame {data.hex()} which does not decode fully (getValue pending)"))
            # now the genuine reply; the call may already have lost its slot to the bad frame (allowed) -> do not wait 10 s for it
            hold["on"] = False
            hold["cmd"] = "getValue"
            if not call.done():
                req.nrsp += 1
                ncp.emit(genuine, 0.0, "rsp", req.seq)
                await asyncio.sleep(0.2)
                if not call.done():
                    # the call lost its registration to the bad frame (allowed): it must then run into the command timeout like any unanswered
                    # command, and give the command slot back - "commands issued afterwards still complete normally"
                    probe("pending_call_timed_out_after_bad_frame")
                    await asyncio.wait([call], timeout=10.5)
                    if not call.done():
                        viol.append(("C08.after", "pending-command-never-ended", f"v{V}: getValue (seq {req.seq}) whose registration was consumed by {what} frame {data.hex()} had neither returned nor timed out "
                                     f"10.9 s after it was issued; every later command waits behind it"))
                        call.cancel()
                        await asyncio.sleep(0.01)
                elif call.exception() is None and cmd == "getValue":
                    r = call.result()
                    if bytes(r[1]) != genuine[-len(bytes(r[1])):] if len(bytes(r[1])) else False:
                        viol.append(("C08.nocross", "wrong-payload", f"v{V}: getValue returned {r!r} after bad frame {data.hex()}"))
            # C08.after
            try:
                before = token[0]
                r = await ez.getEui64()
                if int.from_bytes(bytes(r[0].serialize()), "little") != before + 1:
                    viol.append(("C08.after", "wrong-value", f"v{V}: getEui64 after {what} frame {data.hex()} returned a foreign value"))
                else:
                    probe("after_command_ok")
            except Exception as e:
                viol.append(("C08.after", "command-failed", f"v{V}: getEui64 issued after {what} frame {data.hex()} raised {e!r}"))

        async def inject_stale(mode):
            """The pending getValue is given up (caller cancelled / 10 s timeout), THEN its genuine reply arrives: a frame with a known ID, a
            decodable payload and a sequence number that answers no pending call any more."""
            hold["on"] = True
            hold["reqs"].clear()
            call = loop.create_task(ez.getValue(valueId=t.EzspValueId.VALUE_FREE_BUFFERS))
            await asyncio.sleep(0.1)
            if not hold["reqs"]:
                call.cancel()
                hold["on"] = False
                return
            req, genuine = hold["reqs"][0]
            if mode == "cancel":
                call.cancel()
                await asyncio.sleep(0.01)
            else:
                await asyncio.sleep(10.2)
            hold["on"] = False
            nr = len(raised)
            probe("inject.stale_own_reply")
            injected.append(genuine + mode.encode())
            req.nrsp += 1
            ncp.emit(genuine, 0.0, "rsp", req.seq)
            await asyncio.sleep(0.2)
            if len(raised) > nr:
                viol.append(("C08.noraise", "escaped", f"v{V}: EZSP.frame_received raised {raised[-1][2]} for the genuine reply {genuine.hex()} of a getValue whose caller had "
                             f"{'been cancelled' if mode == 'cancel' else 'timed out'} (seq {req.seq})"))
            if not call.done():
                call.cancel()
            await after_check(f"late own reply ({mode})", genuine)

        async def after_check(what, data):
            try:
                before = token[0]
                r = await ez.getEui64()
                if int.from_bytes(bytes(r[0].serialize()), "little") != before + 1:
                    viol.append(("C08.after", "wrong-value", f"v{V}: getEui64 after {what} frame {data.hex()} returned a foreign value"))
                else:
                    probe("after_command_ok")
            except Exception as e:
                viol.append(("C08.after", "command-failed", f"v{V}: getEui64 issued after {what} frame {data.hex()} raised {e!r}"))

        if scenario == "renegotiate":
            # frames whose ID the CURRENT handler does not know arrive while the legacy (v4) handler is active after a reset; after the version
            # is negotiated again those IDs are ordinary commands of the new handler: "commands issued afterwards still complete normally"
            from ..ncpmodel import tables
            ids4 = {cid for (cid, _tx, _rx) in tables(4)[0].values()}
            cands = [n for n, (cid, tx, rx) in ncp.cmds.items() if cid not in ids4 and cid < 256 and not n.endswith("Handler") and isinstance(tx, dict) and not tx
                     and isinstance(rx, dict)][:8]
            probe("mode.renegotiate")
            if V == 4 or not cands:
                return
            if V >= 8 and "setSourceRouteDiscoveryMode" in ncp.cmds:
                # a command is still pending when the handler is switched back to v4 by a reset; afterwards a v4 frame arrives under its sequence
                # whose numeric frame ID (0x5A) is the pending command's ID in the OLD version and another command's in the new one
                probe("pending_across_handler_switch")
                hold["on"], hold["cmd"] = True, "setSourceRouteDiscoveryMode"
                hold["reqs"].clear()
                call = loop.create_task(ez.setSourceRouteDiscoveryMode(mode=1))
                await asyncio.sleep(0.1)
                seq_p = hold["reqs"][0][0].seq if hold["reqs"] else None
                hold["on"], hold["cmd"] = False, "getValue"
                await ez.reset()
                if seq_p is not None:
                    nr = len(raised)
                    ncp.emit(bytes([seq_p, 0x80, 0x5A, 0x00]), 0.0, "bad")
                    await asyncio.sleep(0.2)
                    if len(raised) > nr:
                        viol.append(("C08.noraise", "escaped", f"v{V}: EZSP.frame_received raised {raised[-1][2]} for a v4 frame with ID 0x5A after a reset with a command pending"))
                    if call.done() and not call.cancelled() and call.exception() is None:
                        viol.append(("C08.nocross", "completed-across-handler-switch", f"v{V}: setSourceRouteDiscoveryMode (ID 0x5A in v{V}) was still pending when reset() switched to the v4 "
                                     f"handler; a v4 setSourceRoute reply (ID 0x5A there) under its sequence completed it with {call.result()!r}"))
                if not call.done():
                    call.cancel()
                    await asyncio.sleep(0.01)
            else:
                await ez.reset()
            for n in cands:
                cid = ncp.cmds[n][0]
                nr = len(raised)
                n0 = len(cbs)
                data = bytes([0xE0, 0x80, cid]) + b"\x00\x00"
                injected.append(data)
                probe("inject.unknown_id")
                ncp.emit(data, 0.0, "bad")
                await asyncio.sleep(0.05)
                if len(raised) > nr:
                    viol.append(("C08.noraise", "escaped", f"v{V}: EZSP.frame_received raised {raised[-1][2]} for a frame with ID 0x{cid:02X} during the legacy phase after a reset"))
                if len(cbs) > n0:
                    viol.append(("C08.cbvalid", "callback-for-bad-frame", f"v{V}: callback {cbs[-1][1]} invoked for a frame with ID 0x{cid:02X} that the legacy handler does not know"))
            await ez.version()
            for n in cands:
                try:
                    async with asyncio.timeout(11.0):
                        await getattr(ez, n)()
                    probe("after_command_ok")
                except Exception as e:  # noqa: BLE001
                    viol.append(("C08.after", "command-failed", f"v{V}: {n} (ID 0x{ncp.cmds[n][0]:02X}) issued after renegotiation raised {e!r}; a frame with that ID had arrived while the legacy handler was active"))
                    break
            return
        if scenario == "wrap":
            # a command loses its reply (undecodable reply under its sequence / no reply / caller gone): its registration at sequence S stays behind.
            # 255 further commands later the 8-bit sequence number is S again: "commands issued afterwards still complete normally"
            probe("mode.wrap")
            stale = params["stale"]
            hold["on"] = True
            hold["reqs"].clear()
            call = loop.create_task(ez.getValue(valueId=t.EzspValueId.VALUE_FREE_BUFFERS))
            await asyncio.sleep(0.1)
            if not hold["reqs"]:
                viol.append(("C08.after", "request-lost", f"v{V}: getValue request did not reach the NCP"))
                call.cancel()
                return
            req, genuine = hold["reqs"][0]
            if stale == "undecodable":
                L = len(genuine) - 1
                while L > 0 and decodes(V, genuine[:L])[1]:
                    L -= 1
                data = genuine[:L]
                injected.append(data)
                probe("inject.truncated")
                nr = len(raised)
                ncp.emit(data, 0.0, "bad")
                await asyncio.sleep(0.2)
                if len(raised) > nr:
                    viol.append(("C08.noraise", "escaped", f"v{V}: EZSP.frame_received raised {raised[-1][2]} for the truncated reply {data.hex()}"))
            if stale == "cancel":
                call.cancel()
                await asyncio.sleep(0.01)
            else:
                await asyncio.wait([call], timeout=10.5)
                if not call.done():
                    viol.append(("C08.after", "pending-command-never-ended", f"v{V}: getValue (seq {req.seq}) with {stale} reply neither returned nor timed out"))
                    call.cancel()
                    await asyncio.sleep(0.01)
            hold["on"] = False
            injected.append(b"wrap" + stale.encode())
            for i in range(259):
                before = token[0]
                try:
                    async with asyncio.timeout(10.5):
                        r = await ez.getEui64()
                except Exception as e:  # noqa: BLE001
                    viol.append(("C08.after", "command-failed-after-wrap", f"v{V}: command #{i + 1} issued after a getValue under sequence {req.seq} was left unanswered ({stale}) raised {e!r} "
                                 f"(the 8-bit sequence number is {(req.seq + 1 + i) % 256} again)"))
                    break
                if int.from_bytes(bytes(r[0].serialize()), "little") != before + 1:
                    viol.append(("C08.after", "wrong-value", f"v{V}: command #{i + 1} after the unanswered getValue returned a foreign value"))
                    break
                if (req.seq + 1 + i) % 256 == req.seq:
                    probe("wrapped_onto_stale_sequence")
            else:
                probe("after_command_ok")
            return
        if scenario == "fcbytes":
            probe("mode.idle")
            for name in ("stackStatusHandler", "getValue", "nop"):
                full = sample_frame(ncp, V, name, tape, 0xE7)
                for x in range(256):
                    data = full[:1] + bytes([x]) + full[2:]
                    injected.append(data)
                    probe("inject.frame_control")
                    await inject_idle(data, f"{name} with frame-control byte {x:#04x}")
                await after_check(f"{name} frame-control sweep", full)
            return
        if scenario == "trunc":
            mode = params["mode"]
            probe("mode." + mode)
            if mode == "pending":
                await inject_stale("cancel")
                await inject_stale("timeout")
            for name in params["frames"]:
                if name not in ncp.cmds:
                    continue
                full = sample_frame(ncp, V, name, tape, 0xE7)
                for L in range(0, len(full) + 1):
                    if mode == "idle":
                        data = full[:L]
                        injected.append(data)
                        probe("inject.truncated" if L < len(full) else "decodable_intact")
                        if L == 0:
                            probe("inject.empty")
                        await inject_idle(data, f"{name} truncated to {L}/{len(full)} bytes")
                        if L in (0, 1, len(full) - 1):
                            await after_check(f"{name}[:{L}]", data)
                    else:
                        def make(seq, L=L, full=full):
                            return (bytes([seq]) + full[1:])[:L]

                        injected.append(full[:L])
                        probe("inject.truncated")
                        await inject_pending(make, f"{name} truncated to {L}/{len(full)} bytes")
                        if L == len(full) and name != "version":
                            # ... and under the sequence of a pending version query (frame ID 0x0000)
                            injected.append(full[:L] + b"ver")
                            await inject_pending(make, f"{name} intact", cmd="version")
                        if L == len(full) or L == len(full) - 1:
                            # the same foreign frame once more under the pending sequence (a repeated callback, a duplicated foreign reply)
                            injected.append(full[:L] + b"x2")
                            await inject_pending(make, f"{name} truncated to {L}/{len(full)} bytes", repeat=2)
                        if name == "getValue" and L >= 1:
                            # the pending command's own frame id under another sequence number must not complete it either
                            def make2(seq, L=L, full=full):
                                return (bytes([(seq + 77) % 256]) + full[1:])[:L]

                            injected.append(b"\xff" + full[1:L])
                            probe("inject.seq_subst")
                            await inject_pending(make2, f"getValue under a foreign sequence, truncated to {L}/{len(full)} bytes")
            return
        # ---- random: mutated frames around a running workload
        n = 6 + tape.draw(20, "n")
        names = [x for x in BASE if x in ncp.cmds]
        for i in range(n):
            kind = ("random", "flip", "fid_subst", "seq_subst", "empty", "trunc", "unknown_id")[tape.draw(7, "kind")]
            pending = bool(tape.draw(2, "pending"))
            base = sample_frame(ncp, V, names[tape.draw(len(names), "frame")], tape, 0xE0 + tape.draw(16, "seq"))
            hl = len(Z.header(V, 0, 0))

            def mutate(seq, kind=kind, base=base):
                b = bytearray(base)
                if kind == "random":
                    b = bytearray(tape.rand_bytes(tape.draw(41, "rlen"), "rb"))
                elif kind == "flip" and len(b) > 0:
                    for _ in range(1 + tape.draw(3, "nflip")):
                        b[tape.draw(len(b), "pos")] ^= 1 << tape.draw(8, "bit")
                elif kind == "fid_subst":
                    b[hl - 1 if V < 8 else hl - 2] = tape.draw(256, "fid")
                elif kind == "seq_subst":
                    pass
                elif kind == "empty":
                    b = bytearray()
                elif kind == "trunc":
                    b = b[: tape.draw(len(b) + 1, "L")]
                elif kind == "unknown_id":
                    b[hl - 1 if V < 8 else hl - 2] = 0xFD
                    if V >= 8:
                        b[hl - 1] = 0x7F
                if seq is not None and len(b) > 0 and kind != "random":
                    b[0] = seq
                return bytes(b)

            probe("inject." + {"trunc": "truncated"}.get(kind, kind))
            if tape.draw(12, "stale?") == 11:
                await inject_stale(("cancel", "timeout")[tape.draw(2, "stale.mode")])
            if pending:
                probe("mode.pending")
                if kind == "seq_subst":
                    off = (1, 77, 128, 255)[tape.draw(4, "seqoff")]
                    gvf = sample_frame(ncp, V, "getValue", tape, 0) if tape.draw(2, "ownfid") else base
                    await inject_pending(lambda seq: bytes([(seq + off) % 256]) + gvf[1:], "seq_subst (foreign sequence)")
                else:
                    rep = (1, 1, 2, 3)[tape.draw(4, "repeat")]
                    if rep > 1 and kind in ("random", "flip"):
                        fixed = {}

                        def same(seq, fixed=fixed):  # the identical frame each time
                            if "d" not in fixed:
                                fixed["d"] = mutate(seq)
                            return fixed["d"]

                        await inject_pending(same, kind, repeat=rep)
                    else:
                        await inject_pending(lambda seq: mutate(seq), kind, repeat=rep)
            else:
                probe("mode.idle")
                data = mutate(None)
                # idle mode needs a sequence no call has used so far (stale entries of timed-out calls swallow frames)
                if data:
                    used = {r.seq for r in ncp.requests}
                    if data[0] in used:
                        free = [s for s in range(255, 0, -1) if s not in used]
                        data = bytes([free[0]]) + data[1:]
                injected.append(data)
                await inject_idle(data, kind)
                if tape.draw(3, "after") == 0:
                    await after_check(kind, data)

    import logging

    debuglog = params.get("debuglog", False) or (scenario == "random" and tape.draw(4, "debuglog") == 3)
    if debuglog:
        probe("loggers_at_debug")
        lg = logging.getLogger("bellows")
        nh = logging.NullHandler()
        old_level, old_prop = lg.level, lg.propagate
        logging.disable(logging.NOTSET)
        lg.setLevel(logging.DEBUG)
        lg.addHandler(nh)
        lg.propagate = False
    try:
        outcome, val = rig.run(main())
    finally:
        if debuglog:
            lg.removeHandler(nh)
            lg.setLevel(old_level)
            lg.propagate = old_prop
            logging.disable(logging.CRITICAL)
    if outcome != "done":
        viol.append(("C08.after", "sim-" + outcome, f"v{V}: simulation ended with {outcome}: {val!r}"))
    if rig.transport is not None and rig.transport.raised:
        viol.append(("C08.noraise", "data-received-raised", f"v{V}: AshProtocol.data_received raised {rig.transport.raised[0]!r}"))
    for k, v in rig.probes().items():
        probes[k] = probes.get(k, 0) + v
    sigs = {hashlib.blake2b(repr((V, scenario, params.get("mode"), d)).encode(), digest_size=8).digest() for d in injected}
    res = {"viol": viol, "faults": {}, "probes": probes, "vt": loop.time(), "iters": loop.iters, "sigs": sigs, "evals": max(1, len(injected)),
           "digest": hashlib.sha256(repr((rig.log, loop.time(), loop.iters)).encode()).hexdigest()[:16],
           "sample": {"V": V, "scenario": scenario, "mode": params.get("mode"), "injected_head": [d.hex() for d in injected[:10]], "callbacks_seen": len(cbs)}}
    if detail:
        res["trace"] = [repr(e) for e in rig.log[-300:]]
    return res
