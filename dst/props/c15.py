"""C15 - host view of the multicast table matches the NCP and never leaks slots (engine E3: real Multicast over the real EZSP stack)."""
import asyncio
import hashlib
import itertools

import bellows.multicast
import bellows.types as t

from .. import e3

ID = "C15"
LEVEL = "exploration"
ENGINE = "E3 stack"
TECHNIQUE = ("deterministic simulation: the real Multicast controller over the real EZSP stack against the reference NCP's multicast table; every "
             "table write is answered {accept, reject, never -> real 10 s command timeout in virtual time}; complete enumeration of short operation "
             "sequences with all answer assignments, seeded longer sequences, checked call by call against a reference table model"
             ' The whole-stack soak (dst/soak.py: one ControllerApplication object through several connect/traffic/failure/reconnect epochs) is a further seeded scenario of this check.')
LEVEL_TEXT = ("all operation sequences over {subscribe g, unsubscribe g} up to a length bound, for every small table size and initial table content, "
              "with every assignment of {accepted, rejected, no reply (10 s command timeout)} to the table writes are run (exhaustive small sweep); "
              "seeded sequences up to length 12 with start-up in between, table sizes up to 4 and a group universe of 5 beyond that")
COMPONENTS = {
    "real": ["bellows.multicast.Multicast"] + e3.COMPONENTS["real"],
    "simulated": e3.COMPONENTS["simulated"] + ["coordinator object with endpoint group membership (plain object)"],
}
RULE = ("sweep: (version, table size, initial table, operation sequence with per-write answer); random: longer sequences incl. startup, sizes 0-4, 5 groups, "
        "replies lost after the NCP applied the write or before. Non-trivial = the sequence contains a rejected or unanswered write, a full table or a "
        "repeated subscribe; distinct = distinct (size, initial table, sequence, answers).")
ASSUMPTIONS = [
    "the host's view is read from Multicast._multicast / _available (the state the property is anchored in) and cross-checked through the API "
    "(number of further subscriptions that succeed)",
    "after a command timeout the NCP may or may not have applied the write; equality of host view and NCP table is demanded only for histories without timeouts, "
    "slot conservation and partition always",
    "command payload schemas inside the NCP model are bellows' own tables",
]
PROBES = ["firmware_network_index_1", "firmware_network_index_None", "op.subscribe", "op.unsubscribe", "op.startup", "answer.ok", "answer.reject", "answer.never", "already_subscribed", "table_full",
          "unsubscribe_unknown", "timeout_raised", "startup_with_existing_entries"]

GROUPS = (0x0101, 0x0202, 0x0303, 0x0404, 0x0505)
ANS = ("ok", "reject", "never")


def plan(tier):
    sweeps = []
    L = 3 if tier == "quick" else 4
    ng = 2 if tier == "quick" else 3
    alpha = [(op, g, a) for op in ("sub", "unsub") for g in range(ng) for a in ANS]
    for V in ((8, 14) if tier == "quick" else (4, 8, 14)):
        for size in (0, 1, 2):
            inits = [[]] + ([[[0, 0]]] if size >= 1 else []) + ([[[1, 1], [0, 0]]] if size >= 2 else [])
            for init in inits:
                for first in range(len(alpha)):
                    sweeps.append(("enum", {"V": V, "size": size, "init": init, "first": first, "L": L, "ng": ng, "sched": False}))
    # firmware flavours: the network index of an entry reported as 1, or not reported at all (old single-network firmware)
    for V in (4, 8):
        for netidx in (1, None):
            for first in range(0, len(alpha), 2):
                sweeps.append(("enum", {"V": V, "size": 2, "init": [[1, 1], [0, 0]], "first": first, "L": 2, "ng": ng, "sched": False, "netidx": netidx}))
    for V in (4, 8, 14):
        sweeps.append(("overlap", {"V": V, "sched": False}))
    return {
        "sweeps": sweeps,
        "exhaustive": f"all sequences of length <= {L} over {{subscribe, unsubscribe}} x {ng} groups x answer {{accept, reject, no reply}} for table sizes 0..2 and initial tables {{empty, one entry, full}}",
        "random": [("random", {}, 4), ("soak", {}, 1), ("overlap_random", {}, 1)],
        "runs": 1500 if tier == "quick" else None,
        "budget_s": 60 if tier == "quick" else 900,
        "batch": 20,
        "sweep_batch": 2,
    }


class Coord:
    class _Ep:
        def __init__(self, groups):
            self.member_of = {g: None for g in groups}

    def __init__(self, groups):
        self.endpoints = {0: None, 1: Coord._Ep(groups)}


def run(scenario, params, tape, detail=False):
    if scenario == "soak":
        # the whole-stack soak (dst/soak.py): one application object through several connection epochs with traffic, failures and
        # reconnects; this check reports the clauses of its own property from it
        from .. import soak

        return soak.run(params, tape, detail=detail)
    V = params["V"] if "V" in params else (4, 8, 13, 14)[tape.draw(4, "V")]
    rig = e3.StackRig(tape, version=V, sched=params.get("sched", True), fast_line=True, chunking=False, max_iters=3_000_000, max_vt=1e8)
    loop, ncp = rig.loop, rig.ncp
    viol, probes = [], {}
    if "netidx" in params:
        ncp.mc_netidx = params["netidx"]
        probes["firmware_network_index_" + str(params["netidx"])] = 1
    elif scenario == "random":
        ncp.mc_netidx = (0, 0, 1, None)[tape.draw(4, "netidx")]
    sigs = set()
    nseq = [0]
    samples = []

    def probe(n, k=1):
        probes[n] = probes.get(n, 0) + k

    answer = {"mode": "ok", "applied": False}
    writes = []

    def deliver(req, payload):
        if req.name == "setMulticastTableEntry":
            writes.append((int(req.args["index"]), int(req.args["value"].multicastId), int(req.args["value"].endpoint), answer["mode"]))
            if answer["mode"] == "never":
                return
        req.nrsp += 1
        ncp.emit(payload, answer.get("delay", 0.0) if req.name == "setMulticastTableEntry" else 0.0, "rsp", req.seq)

    ncp.deliver = deliver

    def reject(index, value):
        m = answer["mode"]
        if m == "reject":
            return ("INDEX_OUT_OF_RANGE", "FAIL", "TABLE_FULL")[(index + int(value.multicastId)) % 3]
        if m == "never" and not answer["applied"]:
            return "FAIL"  # not applied; the reply is withheld anyway
        return None

    ncp.multicast_reject = reject

    async def one_sequence(ez, size, init, seq, label):
        """seq: list of (op, group index | list, answer[, applied])"""
        ncp.multicast_size = size
        ncp.config[0x06] = size
        ncp.multicast = {idx: (GROUPS[g], 1) for (idx, g) in init}
        mc = bellows.multicast.Multicast(ez)
        await mc._initialize()
        if init:
            probe("startup_with_existing_entries")
        had_timeout = False
        dup_table = False
        desc = []
        for step in seq:
            op, g, ans = step[0], step[1], step[2]
            answer["mode"] = ans
            answer["applied"] = bool(step[3]) if len(step) > 3 else False
            n_free = len(mc._available)
            used_before = {int(k): v[1] for k, v in mc._multicast.items()}
            if op == "startup":
                prog = [gid for (gid, ep) in ncp.multicast.values() if ep != 0]
                if len(prog) != len(set(prog)):
                    # a write whose reply was lost had been applied and the group was later programmed again: the table now holds
                    # a group twice, which is outside the initial tables the property quantifies over (each group at most once)
                    dup_table = True
            w0 = len(writes)
            raised = None
            status = None
            try:
                if op == "sub":
                    probe("op.subscribe")
                    status = await mc.subscribe(GROUPS[g])
                elif op == "unsub":
                    probe("op.unsubscribe")
                    status = await mc.unsubscribe(GROUPS[g])
                else:
                    probe("op.startup")
                    await mc.startup(Coord([GROUPS[x] for x in g]))
                    status = 0
            except asyncio.TimeoutError as e:
                raised = e
                had_timeout = True
                probe("timeout_raised")
            except Exception as e:  # any other exception out of the API
                raised = e
            nw = writes[w0:]
            for w in nw:
                probe("answer." + w[3])
            ok = raised is None and t.sl_Status.from_ember_status(status) == t.sl_Status.OK if op != "startup" else raised is None
            where = f"{label} step {len(desc)} {op}({g}) answer={ans}: "
            desc.append((op, g if not isinstance(g, list) else tuple(g), ans, "ok" if ok else ("raised" if raised is not None else "fail")))
            if raised is not None and not isinstance(raised, asyncio.TimeoutError):
                viol.append(("C15.conserve", "unexpected-exception", where + f"raised {raised!r}"))
            # --- per-call clauses
            if op == "sub":
                if GROUPS[g] in used_before:
                    probe("already_subscribed")
                    if not ok or nw:
                        viol.append(("C15.idem", "resubscribe", where + f"subscribing to an already subscribed group returned {status!r} and sent {len(nw)} table write(s)"))
                elif n_free == 0:
                    probe("table_full")
                    if ok or nw:
                        viol.append(("C15.full", "no-free-index", where + f"no free index: returned {status!r}, sent {len(nw)} write(s)"))
                else:
                    if len(nw) != 1:
                        viol.append(("C15.mirror", "write-count", where + f"{len(nw)} table writes for one subscribe"))
                    elif nw[0][0] in used_before.values():
                        viol.append(("C15.partition", "wrote-used-index", where + f"wrote index {nw[0][0]} which is in use"))
                    if ok != (ans == "ok"):
                        viol.append(("C15.mirror", "status", where + f"write was answered {ans} but the call {'succeeded' if ok else 'failed'} ({status!r})"))
            elif op == "unsub":
                if GROUPS[g] not in used_before:
                    probe("unsubscribe_unknown")
                    if ok or nw:
                        viol.append(("C15.mirror", "unsubscribe-unknown", where + f"unsubscribing from a group that is not subscribed returned {status!r}, sent {len(nw)} write(s)"))
                elif ok != (ans == "ok"):
                    viol.append(("C15.mirror", "status", where + f"write was answered {ans} but the call {'succeeded' if ok else 'failed'} ({status!r})"))
            if not ok and op != "startup":
                if len(mc._available) != n_free:
                    how = "command timeout" if isinstance(raised, asyncio.TimeoutError) else "rejection"
                    key = "leak-on-timeout" if isinstance(raised, asyncio.TimeoutError) and op == "sub" else "free-count-changed"
                    viol.append(("C15.conserve", key, where + f"the call failed ({how}) but the number of free indices went from {n_free} to {len(mc._available)}"))
            # --- partition
            used = [v[1] for v in mc._multicast.values()]
            free = set(mc._available)
            if len(set(used)) != len(used):
                viol.append(("C15.partition", "index-used-twice", where + f"indices in use {used}"))
            if set(used) & free:
                viol.append(("C15.partition", "free-and-used", where + f"indices {sorted(set(used) & free)} are both free and in use"))
            if (set(used) | free) != set(range(size)) and not (key_leak(viol)) and not dup_table:
                viol.append(("C15.partition", "index-lost", where + f"indices {sorted(set(range(size)) - set(used) - free)} are neither free nor in use (table size {size})"))
            # --- mirror
            if not had_timeout:
                host = {int(k) for k in mc._multicast.keys()}
                ncp_groups = {gid for (gid, ep) in ncp.multicast.values() if ep != 0}
                if host != ncp_groups:
                    viol.append(("C15.mirror", "diverged", where + f"host reports {sorted(hex(x) for x in host)}, NCP table has {sorted(hex(x) for x in ncp_groups)}"))
                for k, (entry, idx) in mc._multicast.items():
                    if ncp.multicast.get(idx, (0, 0))[0] != int(k):
                        viol.append(("C15.mirror", "index-mismatch", where + f"host has group {int(k):#x} at index {idx}, NCP has {ncp.multicast.get(idx)} there"))
        # --- conservation through the API: further subscriptions that succeed == free indices a leak-free controller would have
        answer["mode"] = "ok"
        expect_free = size - len(mc._multicast)
        got = 0
        for j in range(size + 1):
            s = await mc.subscribe(0x7000 + j)
            if t.sl_Status.from_ember_status(s) == t.sl_Status.OK:
                got += 1
        if got != expect_free and not dup_table:
            key = "leak-on-timeout" if had_timeout and got < expect_free else "api-free-count"
            viol.append(("C15.conserve", key, f"{label}: after the sequence {desc} {got} further subscriptions succeeded, {expect_free} indices should be free"))
        nseq[0] += 1
        nontrivial = any(d[2] != "ok" or d[3] != "ok" for d in desc)
        if nontrivial:
            sigs.add(hashlib.blake2b(repr((V, size, init, desc)).encode(), digest_size=8).digest())
        if len(samples) < 2 and nontrivial:
            samples.append({"V": V, "size": size, "init": init, "steps": [list(map(str, d)) for d in desc]})

    def key_leak(vs):
        return any(v[1] == "leak-on-timeout" for v in vs)

    async def overlap_same_unsubscribe(ez, size, label):
        """Two overlapping unsubscribe(G) calls (both table writes outstanding), the first confirmed, then subscribe(H) claims the freed index before the
        second confirmation arrives. What the second unsubscribe returns or raises is not constrained (overlapping calls for ONE group are outside the
        property's quantifier, and bellows raises KeyError there); the table invariants afterwards are."""
        ncp.multicast_size = size
        ncp.config[0x06] = size
        ncp.multicast = {}
        answer["mode"], answer["applied"], answer["delay"] = "ok", False, 0.0
        mc = bellows.multicast.Multicast(ez)
        await mc._initialize()
        nseq[0] += 1
        probe("op.overlapping_same_group")
        for g in range(size):
            await mc.subscribe(GROUPS[g])
        answer["delay"] = 0.1
        u1 = loop.create_task(mc.unsubscribe(GROUPS[0]))
        u2 = loop.create_task(mc.unsubscribe(GROUPS[0]))
        await asyncio.sleep(0.15)  # the first write is confirmed, the second is outstanding
        s1 = loop.create_task(mc.subscribe(GROUPS[4]))
        await asyncio.gather(u1, u2, s1, return_exceptions=True)
        answer["delay"] = 0.0
        where = f"{label} overlapping unsubscribe x2 of one group, then a subscribe between the two confirmations: "
        used = [v[1] for v in mc._multicast.values()]
        free = set(mc._available)
        if len(set(used)) != len(used):
            viol.append(("C15.partition", "index-used-twice", where + f"indices in use {used}"))
        if set(used) & free:
            viol.append(("C15.partition", "free-and-used", where + f"indices {sorted(set(used) & free)} are both free and in use"))
        # further subscriptions must not overwrite a slot the host still reports in use
        before = {int(k): v[1] for k, v in mc._multicast.items()}
        for j in range(size + 1):
            await mc.subscribe(0x7100 + j)
        for k, idx in before.items():
            if ncp.multicast.get(idx, (0, 0)) != (k, 1):
                viol.append(("C15.mirror", "overwritten", where + f"group {k:#x} (index {idx}) is still reported by the host but the NCP now has {ncp.multicast.get(idx)} there"))
                break
        sigs.add(hashlib.blake2b(repr((V, "overlap_same", size)).encode(), digest_size=8).digest())

    async def overlap_sequence(ez, size, rounds, label):
        """Operations on DIFFERENT groups whose table writes overlap (two callers, e.g. two group-membership changes at once): the
        invariants are checked whenever no call is in progress. (Two overlapping subscribes of the SAME group are not generated: that
        is a race of its own in Multicast.subscribe, outside what the property quantifies over - see DESIGN.md.)"""
        ncp.multicast_size = size
        ncp.config[0x06] = size
        ncp.multicast = {}
        answer["mode"], answer["applied"] = "ok", False
        mc = bellows.multicast.Multicast(ez)
        await mc._initialize()
        nseq[0] += 1
        for r, ops in enumerate(rounds):
            probe("op.overlapping")
            n_free = len(mc._available)
            subscribed = {int(k) for k in mc._multicast}
            res = await asyncio.gather(*[(mc.subscribe(GROUPS[g]) if op == "sub" else mc.unsubscribe(GROUPS[g])) for (op, g) in ops], return_exceptions=True)
            where = f"{label} round {r} overlapping {ops}: "
            oks = [not isinstance(x, BaseException) and t.sl_Status.from_ember_status(x) == t.sl_Status.OK for x in res]
            new_subs = [g for (op, g) in ops if op == "sub" and GROUPS[g] not in subscribed]
            freed = len([1 for (op, g) in ops if op == "unsub" and GROUPS[g] in subscribed])
            want_ok_subs = min(len(new_subs), n_free)  # indices freed by an overlapping unsubscribe may or may not be available in time
            got_ok_subs = len([1 for (op, g), ok in zip(ops, oks) if op == "sub" and GROUPS[g] not in subscribed and ok])
            if not (want_ok_subs <= got_ok_subs <= min(len(new_subs), n_free + freed)):
                viol.append(("C15.full", "overlap-count", where + f"{got_ok_subs} new subscriptions succeeded with {n_free} free indices (+{freed} being freed); results {res}"))
            used = [v[1] for v in mc._multicast.values()]
            free = set(mc._available)
            if len(set(used)) != len(used):
                viol.append(("C15.partition", "index-used-twice", where + f"indices in use {used}"))
            if set(used) & free:
                viol.append(("C15.partition", "free-and-used", where + f"indices {sorted(set(used) & free)} are both free and in use"))
            if (set(used) | free) != set(range(size)):
                viol.append(("C15.partition", "index-lost", where + f"indices {sorted(set(range(size)) - set(used) - free)} are neither free nor in use (table size {size})"))
            host = {int(k) for k in mc._multicast.keys()}
            ncp_groups = sorted(gid for (gid, ep) in ncp.multicast.values() if ep != 0)
            if sorted(host) != ncp_groups:
                viol.append(("C15.mirror", "diverged", where + f"host reports {sorted(hex(x) for x in host)}, NCP table has {[hex(x) for x in ncp_groups]}"))
            for k, (entry, idx) in mc._multicast.items():
                if ncp.multicast.get(idx, (0, 0)) != (int(k), 1):
                    viol.append(("C15.mirror", "index-mismatch", where + f"host has group {int(k):#x} at index {idx}, NCP has {ncp.multicast.get(idx)} there"))
        sigs.add(hashlib.blake2b(repr((V, "overlap", size, rounds)).encode(), digest_size=8).digest())

    async def main():
        ez = await rig.bringup()
        if scenario == "overlap":
            for size in (1, 2, 3):
                for rounds in ([[("sub", 0), ("sub", 1)]],
                               [[("sub", 0), ("sub", 1), ("sub", 2)]],
                               [[("sub", 0), ("sub", 1)], [("unsub", 0), ("sub", 2)], [("sub", 3), ("unsub", 1)]],
                               [[("sub", 0)], [("unsub", 0), ("sub", 1)], [("sub", 0), ("sub", 2), ("sub", 3)]]):
                    await overlap_sequence(ez, size, rounds, f"v{V} size={size}")
                await overlap_same_unsubscribe(ez, size, f"v{V} size={size}")
        elif scenario == "overlap_random":
            size = 1 + tape.draw(4, "size")
            rounds = []
            for _ in range(1 + tape.draw(5, "rounds")):
                gs = list(range(5))
                ops = []
                for _ in range(2 + tape.draw(2, "nops")):
                    g = gs.pop(tape.draw(len(gs), "g"))
                    ops.append((("sub", "sub", "unsub")[tape.draw(3, "op")], g))
                rounds.append(ops)
            await overlap_sequence(ez, size, rounds, f"v{V} size={size}")
        elif scenario == "enum":
            size, init, L, ng = params["size"], params["init"], params["L"], params["ng"]
            alpha = [(op, g, a) for op in ("sub", "unsub") for g in range(ng) for a in ANS]
            first = alpha[params["first"]]
            for n in range(1, L + 1):
                for rest in itertools.product(alpha, repeat=n - 1):
                    await one_sequence(ez, size, [tuple(x) for x in init], [first] + list(rest), f"v{V} size={size} init={init}")
        else:
            size = tape.draw(5, "size")
            init = []
            gs = list(range(5))
            for idx in range(size):
                if tape.draw(3, "init?") == 2 and gs:
                    init.append((idx, gs.pop(tape.draw(len(gs), "initg"))))
            n = 1 + tape.draw(12, "len")
            seq = []
            for _ in range(n):
                k = tape.draw(8, "op")
                ans = ("ok", "ok", "ok", "reject", "never")[tape.draw(5, "ans")]
                applied = tape.draw(2, "applied") if ans == "never" else 0
                if k == 7:
                    seq.append(("startup", [g for g in range(5) if tape.draw(3, "member") == 2], ans, applied))
                elif k < 4:
                    seq.append(("sub", tape.draw(5, "g"), ans, applied))
                else:
                    seq.append(("unsub", tape.draw(5, "g"), ans, applied))
            await one_sequence(ez, size, init, seq, f"v{V} size={size} init={init}")

    outcome, val = rig.run(main())
    if outcome != "done":
        viol.append(("C15.conserve", "sim-" + outcome, f"simulation ended with {outcome}: {val!r}"))
    # de-duplicate identical clause/key pairs (one root cause shows up in many sequences of an enumeration)
    seen = set()
    uniq = []
    for v in viol:
        if (v[0], v[1]) not in seen:
            seen.add((v[0], v[1]))
            uniq.append(v)
    res = {"viol": uniq, "faults": {k[7:]: v for k, v in probes.items() if k.startswith("answer.") and k != "answer.ok"}, "probes": probes, "vt": loop.time(),
           "iters": loop.iters, "sigs": sigs, "evals": max(1, nseq[0]),
           "digest": hashlib.sha256(repr((rig.log[-200:], loop.time(), loop.iters, nseq[0])).encode()).hexdigest()[:16],
           "sample": samples[0] if samples else {"V": V, "sequences": nseq[0]}}
    if detail:
        res["trace"] = [repr(e) for e in rig.log[-300:]]
    return res
