"""C09 - bring-up negotiates the NCP's protocol version and frames everything accordingly (engine E3)."""
import asyncio
import hashlib

from .. import e3
from .. import refash as R
from ..line import FaultPlan

ID = "C09"
LEVEL = "exploration"
ENGINE = "E3 stack"
TECHNIQUE = ("deterministic simulation of the whole bring-up (real AshProtocol/Gateway/EZSP) against a framing-aware reference NCP in virtual "
             "time: complete grid of NCP version x device path x start-up-reset timing, seeded link faults and schedules beyond"
             ' The whole-stack soak (dst/soak.py: one ControllerApplication object through several connect/traffic/failure/reconnect epochs) is a further seeded scenario of this check.')
LEVEL_TEXT = ("the grid NCP version 4..20 x {serial, socket} x start-up-reset timing {absent, early, exactly at the 1 s wait, late while the "
              "host's RST is buffered, after it} is swept completely on a fault-free link (bring-up, default configuration write, second "
              "reset + renegotiation must all succeed and be framed for the NCP); seeded runs add link faults, read chunking and scheduler "
              "ties, under which bring-up may fail but may not report success with a wrong version or framing")
COMPONENTS = e3.COMPONENTS
RULE = ("sweep: every (version, path, boot timing) cell with a benign tape; random: the same cells with swarm line faults "
        "{drop, corrupt, dup, stall}, NCP window, chunking and same-instant scheduling drawn from the tape. Non-trivial = the NCP version "
        "differs from 4 or a fault fired or a spontaneous reset occurred; distinct = distinct (cell, line trace, outcome) digests.")
ASSUMPTIONS = [
    "the reference NCP accepts the legacy-layout version query after every reset and otherwise only requests in its own header layout (UG100); "
    "requests in another layout are ignored and recorded",
    "a socket NCP that is still booting leaves the host's bytes buffered (TCP) and processes them after emitting its start-up RSTACK",
    "with link faults enabled bring-up may raise; only a reported success is held to the adopt/second/format clauses",
    "command payload schemas inside the NCP model are bellows' own tables (header layouts and negotiation logic are independent)",
]
PROBES = ["two_ezsp_objects_open", "second_connection_same_object", "reset_with_command_queued", "spontaneous_rstack_before_rst", "spontaneous_rstack_while_reset_pending", "startup_wait_timed_out", "startup_reset_consumed",
          "bringup_raised_under_faults", "bringup_retry_after_faults_ok", "second_query_sent", "version_gt_14", "renegotiated_after_reset", "sched.batch", "sched.reorder"]

VERSIONS = list(range(4, 21))
BOOTS = (None, 0.2, 0.999, 1.0, 1.2, 2.5)


def plan(tier):
    sweeps = []
    # (first in the list: these cells carry their own second object; state that a changed tree keeps process-wide would otherwise show up in
    # whatever cell happens to run second in a worker process, and such a report does not replay)
    for VA, VB in ((8, 13), (13, 8), (4, 14), (14, 4), (8, 8), (16, 7)):
        sweeps.append(("twin", {"VA": VA, "VB": VB}))
    for V in VERSIONS:
        for sock in (False, True):
            # a spontaneous start-up reset is a property of socket NCPs (zigbeed); a UART NCP booted long before the host opened the port
            for boot in (BOOTS if sock else (None,)):
                sweeps.append(("grid", {"V": V, "sock": sock, "boot": boot, "faults": False, "sched": False}))
    # a later reset issued while ANOTHER caller's command is queued for the command slot (a keep-alive behind the command whose completion
    # triggers the reset, as in ControllerApplication._reset() during write_network_info): every value of the host's frame counter
    for V in (5, 8, 13):
        for k in range(8):
            sweeps.append(("grid", {"V": V, "sock": False, "boot": None, "faults": False, "sched": False, "racing": k}))
    return {
        "sweeps": sweeps,
        "exhaustive": "all cells NCP version 4..20 x {serial; socket:// x start-up reset {absent, 0.2 s, 0.999 s, exactly 1.0 s, 1.2 s, 2.5 s}} on a fault-free link with the benign schedule",
        "random": [("random", {}, 8), ("soak", {}, 1)],
        "runs": 2800 if tier == "quick" else None,
        "budget_s": 60 if tier == "quick" else 900,
        "batch": 50,
    }


def run_twin(params, tape, detail=False):
    """A second EZSP object (a second radio) is brought up while the first one is open: each negotiates with ITS OWN NCP, in the legacy format
    first, and ends up with its own NCP's version and tables."""
    import bellows.uart
    import zigpy.serial

    VA, VB = params["VA"], params["VB"]
    rig_a = e3.StackRig(tape, version=VA, sched=False, fast_line=True, chunking=False, max_iters=400_000)
    rig_b = e3.StackRig(tape, version=VB, loop=rig_a.loop, fast_line=True, chunking=False)
    loop = rig_a.loop
    viol, st = [], {}

    async def bring(rig, label):
        zigpy.serial.create_serial_connection = rig._create_serial_connection
        bellows.uart.zigpy.serial.create_serial_connection = rig._create_serial_connection
        try:
            ez = await rig.bringup()
            await ez.write_config({})
            r = await ez.getEui64()
            st[label] = ("ok", ez.ezsp_version, type(ez._protocol).VERSION, bytes(r[0].serialize()) == rig.ncp.eui64, rig.ncp.negotiated)
            return ez
        except Exception as e:  # noqa: BLE001
            st[label] = ("raised", type(e).__name__, repr(e))
            return None

    async def main():
        ez_a = await bring(rig_a, "A")
        await bring(rig_b, "B")  # ... while A is still open
        if ez_a is not None:
            try:
                r = await ez_a.getEui64()
                st["A.after"] = bytes(r[0].serialize()) == rig_a.ncp.eui64
            except Exception as e:  # noqa: BLE001
                st["A.after"] = repr(e)

    outcome, val = rig_a.run(main())
    tag = f"two EZSP objects (NCP v{VA}, then NCP v{VB} while the first is open)"
    if outcome != "done":
        viol.append(("C09.config", "sim-" + outcome, f"{tag}: ended with {outcome}: {val!r}"))
    for label, V, rig in (("A", VA, rig_a), ("B", VB, rig_b)):
        o = st.get(label)
        if o is None or o[0] != "ok":
            viol.append(("C09.config", "twin-bringup-raised", f"{tag}: bring-up of connection {label} ended {o}; its NCP saw first frames {rig.ncp.first_after_reset[:2]}"))
        elif o[1:] != (V, min(V, 14), True, True):
            viol.append(("C09.adopt", "twin", f"{tag}: connection {label} ended with version {o[1]}, tables v{o[2]}, own EUI64 read {o[3]}, NCP negotiated {o[4]}"))
        for i, first in enumerate(rig.ncp.first_after_reset):
            if first is not None and (first[0] != "legacy" or first[1] != "version"):
                viol.append(("C09.legacy", "twin-first-frame", f"{tag}: first EZSP frame NCP {label} saw after its reset #{i} was {first}"))
        for (tt, raw, why) in rig.ncp.bad_requests[:1]:
            viol.append(("C09.format", "twin-layout", f"{tag}: NCP {label} got request {raw.hex()}: {why}"))
    if st.get("A.after") is not True:
        viol.append(("C09.format", "twin-first-connection-disturbed", f"{tag}: a command on the first connection after the second came up gave {st.get('A.after')!r}"))
    sig = hashlib.blake2b(repr(("twin", VA, VB, sorted((k, repr(v)) for k, v in st.items()))).encode(), digest_size=8).digest()
    return {"viol": viol, "faults": {}, "probes": {"two_ezsp_objects_open": 1}, "vt": loop.time(), "iters": loop.iters, "sig": sig, "nontrivial": True,
            "digest": hashlib.sha256(repr((rig_a.log, rig_b.log, sorted((k, repr(v)) for k, v in st.items()))).encode()).hexdigest()[:16],
            "sample": {"scenario": "twin", "VA": VA, "VB": VB, "outcomes": {k: str(v) for k, v in st.items()}}}


def run(scenario, params, tape, detail=False):
    if scenario == "twin":
        return run_twin(params, tape, detail)
    if scenario == "soak":
        # the whole-stack soak (dst/soak.py): one application object through several connection epochs with traffic, failures and
        # reconnects; this check reports the clauses of its own property from it
        from .. import soak

        return soak.run(params, tape, detail=detail)
    V = params["V"] if "V" in params else VERSIONS[tape.draw(len(VERSIONS), "V")]
    sock = params["sock"] if "sock" in params else bool(tape.draw(2, "sock"))
    if "boot" in params:
        boot = params["boot"]
    else:
        boot = (None, None, 0.2, 0.999, 1.0, 1.0005, 1.2, 2.5)[tape.draw(8, "boot")] if sock else None
    faults = params["faults"] if "faults" in params else bool(tape.draw(3, "faults?"))
    K = 1 + tape.draw(3, "K") if scenario == "random" else 1
    plan_ = FaultPlan.swarm(tape) if faults else None
    rig = e3.StackRig(tape, version=V, path="socket://sim:9999" if sock else "/dev/ttySIM", plan=plan_, K=K,
                      sched=params.get("sched", True), max_iters=100_000)
    loop, ncp, mon = rig.loop, rig.ncp, rig.mon
    rig.line.ties = faults  # a latency reaching up to a protocol deadline is a stall, i.e. a fault
    viol = []
    probes = {}
    info = {"V": V, "sock": sock, "boot": boot, "faults": faults}

    def probe(n):
        probes[n] = probes.get(n, 0) + 1

    # ---- a booting NCP: bytes from the host stay buffered until boot, then the start-up RSTACK, then the buffer
    spont_emitted = []
    if boot is not None:
        buffered = []
        real_feed = rig.ncp_ash.feed

        def feed_boot(data):
            buffered.append(bytes(data))

        rig.line.h2n.sink = feed_boot

        def boot_done():
            rig.line.h2n.sink = real_feed
            spont_emitted.append(loop.time())
            rig.ncp_ash.do_reset()
            for b in buffered:
                real_feed(b)

        loop.external(boot, boot_done, group="ncp-boot")

    st = {}

    async def retry(ez):
        """Bring-up failed while the line was faulty: once the faults have stopped, bring-up is repeated on the same connection."""
        plan_.stop()
        rig.line.ties = False
        await asyncio.sleep(30.0)  # whatever was in flight (retransmissions, a pending 5 s reset wait) has ended by now
        st["retry_first_reset"] = len(ncp.first_after_reset)
        st["retry_t0"] = loop.time()
        st["retry_rst0"] = len([1 for (t, fr, d) in rig.host_writes if fr is not None and fr[0] == "rst"])
        try:
            ez.stop_ezsp()  # as ControllerApplication._reset() does before every repeated bring-up
            await ez.startup_reset()
            st["retry"] = ("ok", ez.ezsp_version, type(ez._protocol).VERSION, loop.time())
            await ez.write_config({})
            r = await ez.getEui64()
            st["retry_eui"] = bytes(r[0].serialize())
        except Exception as e:
            st["retry"] = ("raised", type(e).__name__, repr(e), loop.time())

    async def main():
        ez = await rig.connect()
        st["connected"] = loop.time()
        try:
            await ez.startup_reset()
        except Exception as e:
            st["bringup"] = ("raised", type(e).__name__, loop.time())
            if plan_ is not None:
                await retry(ez)
            return
        st["bringup"] = ("ok", loop.time())
        st["version_at_bringup"] = ez.ezsp_version
        st["proto_at_bringup"] = type(ez._protocol).VERSION
        st["negotiated_at_bringup"] = ncp.negotiated
        st["nreq_bringup"] = len(ncp.requests)
        st["resets_at_bringup"] = len(ncp.first_after_reset)
        try:
            await ez.write_config({})
        except Exception as e:
            st["config"] = ("raised", repr(e))
        else:
            st["config"] = ("ok",)
        # a command after configuration
        try:
            r = await ez.getEui64()
            st["eui"] = bytes(r[0].serialize())
        except Exception as e:
            st["eui"] = repr(e)
        # second reset + renegotiation
        nres = ncp.resets
        racing = params.get("racing")
        if racing is not None:
            import bellows.types as bt

            probe("reset_with_command_queued")
            for _ in range(racing):
                await ez.nop()
            st["racing_reset_index"] = len(ncp.first_after_reset)
            slow = {"on": True}

            def deliver(req, payload):
                req.nrsp += 1
                ncp.emit(payload, 0.3 if (slow["on"] and req.name == "getEui64") else 0.0, "rsp", req.seq)

            ncp.deliver = deliver

            async def keepalive():
                await asyncio.sleep(0.05)  # queued for the command slot behind getEui64; it has passed EZSP's running gate by then
                try:
                    st["racing_other"] = ("ok", await ez.getValue(valueId=bt.EzspValueId.VALUE_FREE_BUFFERS))
                except Exception as e:  # noqa: BLE001
                    st["racing_other"] = ("raised", repr(e))

            other = loop.create_task(keepalive())
            try:
                await ez.getEui64()
                slow["on"] = False
                ez.stop_ezsp()  # what ControllerApplication._reset() does: stop, reset + negotiate, configure
                await ez.startup_reset()
                st["reset2"] = ("ok", 4, 4)
                st["version2"] = ("ok", ez.ezsp_version, type(ez._protocol).VERSION, ncp.negotiated)
                r = await ez.getEui64()
                st["eui2"] = bytes(r[0].serialize())
            except Exception as e:  # noqa: BLE001
                st["second"] = ("raised", type(e).__name__, repr(e))
            await asyncio.sleep(12.0)
            if not other.done():
                other.cancel()
                probe("racing_other_still_pending_after_12s")
            else:
                probe("racing_other_" + st.get("racing_other", ("?",))[0])
            st["resets_seen"] = ncp.resets - nres
            return
        try:
            await ez.reset()
            st["reset2"] = ("ok", ez.ezsp_version, type(ez._protocol).VERSION)
            await ez.version()
            st["version2"] = ("ok", ez.ezsp_version, type(ez._protocol).VERSION, ncp.negotiated)
            r = await ez.getEui64()
            st["eui2"] = bytes(r[0].serialize())
        except Exception as e:
            st["second"] = ("raised", type(e).__name__, repr(e))
        st["resets_seen"] = ncp.resets - nres
        if not faults and boot is None and "second" not in st:
            # the same EZSP object connected a second time (close, connect, bring-up): negotiation starts from scratch
            probe("second_connection_same_object")
            st["third_reset_index"] = len(ncp.first_after_reset)
            nbad = len(ncp.bad_requests)
            try:
                ez.close()
                await asyncio.sleep(0.5)
                await ez.connect(use_thread=False)
                await ez.startup_reset()
                st["third"] = ("ok", ez.ezsp_version, type(ez._protocol).VERSION, ncp.negotiated)
                await ez.write_config({})
                r = await ez.getEui64()
                st["eui3"] = bytes(r[0].serialize())
            except Exception as e:  # noqa: BLE001
                st["third"] = ("raised", type(e).__name__, repr(e))
            st["third_bad"] = [(tt, raw.hex(), why) for (tt, raw, why) in ncp.bad_requests[nbad:]][:2]

    outcome, val = rig.run(main())
    if plan_ is not None:
        plan_.stop()

    # ------------------------------------------------------------------ oracle
    rst_writes = [(t, fr, d) for (t, fr, d) in rig.host_writes if fr is not None and fr[0] == "rst"]
    data_writes = [(t, fr, d) for (t, fr, d) in rig.host_writes if fr is not None and fr[0] == "data"]
    rstacks = [(t, fr) for (t, fr) in mon.rx_frames if fr[0] == "rstack"]
    sw_rstacks = [t for (t, fr) in rstacks if fr[1] == R.RESET_SOFTWARE]
    first_rst = rst_writes[0][0] if rst_writes else None
    spont_before_rst = [t for t in sw_rstacks if first_rst is None or t < first_rst]
    if spont_before_rst:
        probe("spontaneous_rstack_before_rst")
    # a spontaneous start-up RSTACK reaching the host while its explicit reset is pending
    # (FIFO line: the first RSTACK delivered is the spontaneous one; it reached the host when its RST was already written,
    # and the NCP went on to process that RST as well)
    late_spont = bool(spont_emitted and first_rst is not None and sw_rstacks and sw_rstacks[0] >= first_rst and rig.ncp_ash.resets >= 2)
    if late_spont:
        probe("spontaneous_rstack_while_reset_pending")
    if outcome != "done":
        viol.append(("C09.config", "sim-" + outcome, f"bring-up scenario ended with {outcome}: {val!r}"))
    # C09.rst
    if data_writes:
        t_d = data_writes[0][0]
        if not sw_rstacks or sw_rstacks[0] > t_d:
            viol.append(("C09.rst", "data-before-rstack", f"DATA frame written at t={t_d:.6f} before any RSTACK(software) was delivered"))
    hw = [w for w in rig.host_writes if w[1] is None or w[1][0] not in ("ack", "nak")]  # a NAK for line noise may come first
    if hw:
        t0, fr0, d0 = hw[0]
        if not (spont_before_rst and spont_before_rst[0] <= t0):
            if fr0 is None or fr0[0] != "rst" or not d0.startswith(bytes([R.CAN])):
                viol.append(("C09.rst", "first-write", f"first frame written (other than ACK/NAK) is {d0.hex()} (expected CANCEL + RST)"))
        if sock and first_rst is None:
            probe("startup_reset_consumed")
        elif sock:
            probe("startup_wait_timed_out")
    for (t, fr, d) in rst_writes:
        if not d.startswith(bytes([R.CAN])):
            viol.append(("C09.rst", "no-cancel", f"RST written without a CANCEL prefix: {d.hex()}"))
    # C09.legacy / fallback: the first EZSP frame after every NCP reset
    for i, first in enumerate(ncp.first_after_reset):
        if first is None:
            continue
        if first[0] != "legacy" or first[1] != "version":
            which = "C09.legacy" if i < st.get("resets_at_bringup", 10**9) else "C09.fallback"
            viol.append((which, "first-frame", f"first EZSP frame after NCP reset #{i} was {first} (expected the version query in the legacy layout)"))
    bring = st.get("bringup")
    live = []
    if bring is not None and bring[0] == "ok":
        if st["version_at_bringup"] != V:
            viol.append(("C09.adopt", "version", f"bring-up returned with ezsp_version={st['version_at_bringup']} for an NCP of version {V}"))
        if st["proto_at_bringup"] != min(V, 14):
            viol.append(("C09.adopt", "tables", f"bring-up returned with the v{st['proto_at_bringup']} command tables for an NCP of version {V}"))
        if V != 4:
            second = [r for r in ncp.requests[: st["nreq_bringup"]] if r.name == "version" and r.layout != "legacy" and r.args.get("desiredProtocolVersion") == V]
            if not second:
                viol.append(("C09.second", "missing", f"no second version query in the v{V} layout with desiredProtocolVersion={V} before bring-up returned"))
            else:
                probe("second_query_sent")
        if True:
            for (t, raw, why) in ncp.bad_requests:
                viol.append(("C09.format", "layout", f"request {raw.hex()} at t={t:.6f}: {why}"))
                break
        cfg = st.get("config")
        if cfg is not None and cfg[0] != "ok" and not faults:
            if "KeyError" in cfg[1]:
                viol.append(("C09.config", "write-config-keyerror", f"write_config({{}}) raised {cfg[1]} for an NCP of version {V}"))
            else:
                live.append(("C09.config", "write-config-raised", f"write_config({{}}) raised {cfg[1]} for an NCP of version {V}"))
        if not faults:
            if st.get("eui") != ncp.eui64:
                live.append(("C09.format", "command-after-config", f"getEui64 after configuration gave {st.get('eui')!r}"))
            if "second" in st:
                live.append(("C09.fallback", "renegotiation-raised", f"second reset + version raised {st['second']}"))
            else:
                if st.get("reset2", (None, None, None))[1:] != (4, 4):
                    viol.append(("C09.fallback", "not-v4-after-reset", f"after reset() the host is at version/tables {st.get('reset2')} (expected 4/4)"))
                v2 = st.get("version2")
                if v2 is not None and (v2[1] != V or v2[2] != min(V, 14) or not v2[3]):
                    viol.append(("C09.fallback", "renegotiation", f"after the second negotiation: version {v2[1]}, tables v{v2[2]}, NCP negotiated={v2[3]}"))
                elif v2 is not None:
                    probe("renegotiated_after_reset")
                if st.get("eui2") != ncp.eui64:
                    live.append(("C09.format", "command-after-renegotiation", f"getEui64 after renegotiation gave {st.get('eui2')!r}"))
        th = st.get("third")
        if th is not None:
            if th[0] != "ok":
                live.append(("C09.adopt", "second-connection-raised", f"bring-up on the second connection of the same EZSP object raised {th[2]} (NCP v{V})"))
            elif th[1] != V or th[2] != min(V, 14) or not th[3] or st.get("eui3") != ncp.eui64:
                viol.append(("C09.adopt", "second-connection", f"second connection of the same EZSP object to an NCP of version {V}: version {th[1]}, tables v{th[2]}, "
                             f"NCP negotiated={th[3]}, getEui64 {st.get('eui3')!r}; wrongly framed requests {st.get('third_bad')}"))
    elif bring is not None:
        if faults:
            probe("bringup_raised_under_faults")
            # C09.retry (bounded liveness): the faults have stopped, the connection is still there: a repeated bring-up completes
            rt = st.get("retry")
            if rt is not None and rig.transport is not None and not rig.transport._closing:
                nrst = len([1 for (t, fr, d) in rig.host_writes if fr is not None and fr[0] == "rst"]) - st["retry_rst0"]
                if rt[0] != "ok":
                    viol.append(("C09.retry", "raised", f"bring-up failed under line faults ({bring[1]}); repeated on the same connection 30 s after the last fault it raised {rt[2]} "
                                 f"(NCP v{V}, {'socket' if sock else 'serial'}; RST frames written during the retry: {nrst})"))
                elif rt[1] != V or rt[2] != min(V, 14) or st.get("retry_eui") != ncp.eui64:
                    viol.append(("C09.retry", "state", f"repeated bring-up returned version {rt[1]} / tables v{rt[2]} for an NCP of version {V}; getEui64 gave {st.get('retry_eui')!r}"))
                else:
                    probe("bringup_retry_after_faults_ok")
        else:
            live.append(("C09.config", "bringup-raised", f"fault-free bring-up raised {bring[1]} at t={bring[2]:.3f} (NCP v{V}, {'socket' if sock else 'serial'}, boot={boot})"))
    ri = st.get("racing_reset_index")
    racing_hit = ri is not None and ri < len(ncp.first_after_reset) and ncp.first_after_reset[ri] is not None and ncp.first_after_reset[ri][:2] != ("legacy", "version")
    if racing_hit:
        # one root cause: a command that was queued for the command slot when reset() was called is written between the RST and the RSTACK
        first = ncp.first_after_reset[ri]
        mine = [v for v in viol if (v[1] == "first-frame" and f"reset #{ri} " in v[2]) or v[0] == "C09.format"] + live
        for v in mine:
            if v in viol:
                viol.remove(v)
        live = []
        viol.append(("C09.fallback", "command-queued-at-reset",
                     f"NCP v{V}: a command of another caller was queued for the command slot when reset() was called (host frame counter {params.get('racing')}): it was written "
                     f"after the RST and reached the freshly reset NCP as its first EZSP frame {first} in the old format instead of the legacy version query; consequences: "
                     f"{[m[2][:140] for m in mine[:3]]}"))
    if live and late_spont:
        # one root cause: the NCP's start-up RSTACK completed the host's explicit reset early (DESIGN.md F6)
        viol.append(("C09.config", "late-startup-rstack",
                     f"NCP v{V} on a socket emitted its start-up RSTACK at t={spont_emitted[0]:.4f} while the host's RST (t={first_rst:.4f}) was pending; "
                     f"the host took it for the answer, the genuine RSTACK then zeroed its counters mid-traffic; first consequence: {live[0][2]}"))
    else:
        viol.extend(live)
    if V > 14:
        probe("version_gt_14")
    for k, v in rig.probes().items():
        probes[k] = probes.get(k, 0) + v
    fired = dict(rig.plan.fired) if faults else {}
    nontrivial = V != 4 or boot is not None or any(not k.endswith(".deliver") for k in fired)
    sig = hashlib.blake2b(repr((V, sock, boot, rig.line.trace[:60], bring and bring[0], st.get("config", ("",))[0])).encode(), digest_size=8).digest()
    digest = hashlib.sha256(repr((rig.log, sorted((k, repr(v)) for k, v in st.items()), loop.time(), loop.iters)).encode()).hexdigest()[:16]
    res = {"viol": viol, "faults": fired, "probes": probes, "vt": loop.time(), "iters": loop.iters, "sig": sig, "digest": digest,
           "nontrivial": bool(nontrivial),
           "sample": {**info, "bringup": bring, "config": st.get("config"), "first_frames_after_reset": [list(f) if f else None for f in ncp.first_after_reset],
                      "requests": [r.name for r in ncp.requests[:8]], "host_writes_head": [(round(t, 4), fr[0] if fr else None) for t, fr, _ in rig.host_writes[:8]]}}
    if detail:
        res["trace"] = [repr(e) for e in rig.log[:400]]
    return res
