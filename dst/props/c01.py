"""C01 - exactly-once, in-order delivery over a faulty line (engine E1)."""
import itertools

from .. import e1

ID = "C01"
LEVEL = "exploration"
ENGINE = "E1 ashlink"
TECHNIQUE = "deterministic simulation: seeded fault/schedule search over a virtual-time event loop, plus a complete fault-prefix sweep"
COMPONENTS = e1.COMPONENTS
RULE = ("each run: swarm-configured line faults {drop, detectable corruption, duplicate, stall} per frame in both directions, "
        "NCP window 1..3, 1-40 host and 0-40 NCP payloads from concurrent callers, caller cancellation, tape-driven same-instant "
        "ordering/batching; sweep: every assignment of {deliver,drop,corrupt,dup,stall} to the first d frames on the wire. "
        "A run is non-trivial when at least one fault fired or a send raised/was cancelled; distinct = distinct abstract traces "
        "(window, sequence of (direction, frame kind, fault), send outcomes).")
ASSUMPTIONS = [
    "the reference NCP endpoint (dst/refash.py, from UG101) is a correct conforming peer",
    "corruption is restricted to 1-2 bit flips before stuffing (guaranteed CRC-detectable)",
    "RST/RSTACK frames used to recover a failed link are not duplicated by the line (reset handshake is C09/C11)",
]
PROBES = ["repeat_on_nak", "repeat_on_timeout", "send_raised", "send_cancelled", "caller_cancelled_in_flight", "host_link_failed",
          "ncp_link_failed", "host_frmnum_wrapped", "ncp_frmnum_wrapped", "window_2", "window_3", "link_reset_after_failure",
          "sched.batch", "sched.reorder", "retx_after_cover_same_instant"]
CLAUSES = ("C01.",)

KINDS = ("deliver", "drop", "corrupt", "dup", "stall")


def plan(tier):
    d = 4 if tier == "quick" else 6
    sweeps = []
    for K in (1, 2, 3):
        for script in itertools.product(KINDS, repeat=d if K == 1 else d - 1):
            sweeps.append(("prefix", {"K": K, "script": list(script), "n_host": 3, "n_ncp": 2, "cancel_den": 0, "sched": False}))
    # one side gives up (its frame lost on every attempt), THEN the other side sends: what the survivor's receiver accepts and acknowledges is
    # still handed up, what it does not hand up is not acknowledged
    for K in (1, 2, 3):
        sweeps.append(("prefix", {"K": K, "drop_first": ["h2n", 5], "n_host": 1, "n_ncp": 3, "ncp_start": 15.0, "cancel_den": 0, "sched": False, "recover": False}))
        sweeps.append(("prefix", {"K": K, "drop_first": ["h2n", 5], "n_host": 2, "n_ncp": 3, "ncp_start": 15.0, "cancel_den": 0, "sched": False}))
        sweeps.append(("prefix", {"K": K, "drop_first": ["n2h", 5], "n_host": 3, "n_ncp": 1, "host_start": 15.0, "cancel_den": 0, "sched": False, "recover": False}))
    return {
        "sweeps": sweeps,
        "exhaustive": f"all 5^d fault assignments to the first d wire frames (d={d} for K=1, {d-1} for K=2,3), 3 host + 2 NCP payloads, benign schedule",
        "random": [("random", {}, 1)],
        "runs": 12000 if tier == "quick" else None,
        "budget_s": 60 if tier == "quick" else 900,
        "batch": 100,
    }


def run(scenario, params, tape, detail=False):
    return e1.run(params, tape, detail=detail)

LEVEL_TEXT = ("seeded search over fault sequences and schedules (millions of runs per hour) with the real AshProtocol against an "
              "independent reference NCP, plus a complete sweep of fault assignments to the first frames; a clean batch is evidence, not proof")
