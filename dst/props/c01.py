"""C01 - exactly-once, in-order delivery over a faulty line (engine E1)."""
import itertools

from .. import e1

ID = "C01"
LEVEL = "exploration"
ENGINE = "E1 ashlink"
TECHNIQUE = "deterministic simulation: seeded fault/schedule search over a virtual-time event loop, plus a complete fault-prefix sweep"
COMPONENTS = e1.COMPONENTS
RULE = ("each run: swarm-configured line faults {drop, detectable corruption, duplicate, stall} per frame in both directions, "
        "NCP window 1..3, 1-40 host and 0-40 NCP payloads from concurrent callers, caller cancellation, tape-driven same-instant "
        "ordering/batching; sweep: every assignment of {deliver,drop,corrupt,dup,stall} to the first d frames on the wire. "
        "A run is non-trivial when at least one fault fired or a send raised/was cancelled; distinct = distinct abstract traces "
        "(window, sequence of (direction, frame kind, fault), send outcomes).")
ASSUMPTIONS = [
    "the reference NCP endpoint (dst/refash.py, from UG101) is a correct conforming peer",
    "corruption is restricted to 1-2 bit flips before stuffing (guaranteed CRC-detectable)",
    "RST/RSTACK frames used to recover a failed link are not duplicated by the line (reset handshake is C09/C11)",
]
PROBES = ["two_links_one_process", "identical_payloads_back_to_back", "repeat_on_nak", "repeat_on_timeout", "send_raised", "send_cancelled", "caller_cancelled_in_flight", "host_link_failed",
          "ncp_link_failed", "host_frmnum_wrapped", "ncp_frmnum_wrapped", "window_2", "window_3", "link_reset_after_failure",
          "sched.batch", "sched.reorder", "retx_after_cover_same_instant"]
CLAUSES = ("C01.",)

KINDS = ("deliver", "drop", "corrupt", "dup", "stall")


def plan(tier):
    d = 4 if tier == "quick" else 6
    sweeps = []
    for K in (1, 2, 3):
        for script in itertools.product(KINDS, repeat=d if K == 1 else d - 1):
            sweeps.append(("prefix", {"K": K, "script": list(script), "n_host": 3, "n_ncp": 2, "cancel_den": 0, "sched": False}))
    # one side gives up (its frame lost on every attempt), THEN the other side sends: what the survivor's receiver accepts and acknowledges is
    # still handed up, what it does not hand up is not acknowledged
    for K in (1, 2, 3):
        sweeps.append(("prefix", {"K": K, "drop_first": ["h2n", 5], "n_host": 1, "n_ncp": 3, "ncp_start": 15.0, "cancel_den": 0, "sched": False, "recover": False}))
        sweeps.append(("prefix", {"K": K, "drop_first": ["h2n", 5], "n_host": 2, "n_ncp": 3, "ncp_start": 15.0, "cancel_den": 0, "sched": False}))
        sweeps.append(("prefix", {"K": K, "drop_first": ["n2h", 5], "n_host": 3, "n_ncp": 1, "host_start": 15.0, "cancel_den": 0, "sched": False, "recover": False}))
    for d_ in ("A", "B"):
        sweeps.append(("twin", {"drop": d_, "n": 3, "sched": False}))
    for K in (1, 2, 3):
        for nth in range(1, 7):
            sweeps.append(("ncp_repeat", {"K": K, "nth": nth, "sched": False}))
    return {
        "sweeps": sweeps,
        "exhaustive": f"all 5^d fault assignments to the first d wire frames (d={d} for K=1, {d-1} for K=2,3), 3 host + 2 NCP payloads, benign schedule",
        "random": [("random", {}, 1)],
        "runs": 12000 if tier == "quick" else None,
        "budget_s": 60 if tier == "quick" else 900,
        "batch": 100,
    }


def run_twin(params, tape, detail=False):
    """Two ASH links in one process (two radios), both with a DATA frame of the same number in flight; one link loses its frame, the other
    link's acknowledgement arrives: the bookkeeping of one link never completes (or fails) a send of the other."""
    import asyncio
    import hashlib

    import bellows.ash as ash

    from .. import refash as R
    from ..ashmon import WireMonitor
    from ..line import Line, SimTransport
    from ..loop import SimLoop, TimeShim, run_sim

    loop = SimLoop(None, max_iters=200_000)
    ash.time = TimeShim(loop)
    viol, links = [], {}
    drop_first = params.get("drop", "B")

    def make(name):
        log = []
        plan = e1.DirectionalPlan(tape, "h2n", 1 if name == drop_first else 0)
        line = Line(loop, tape, plan, log=log, chunking=False, nodup_kinds=("rst", "rstack"))
        line._latency = lambda: 0.001
        mon = WireMonitor(loop, payload_ok=None)
        upper = e1.HostUpper(loop, mon, log)
        proto = ash.AshProtocol(upper)

        def ncp_emit(frame_wo_crc, kind):
            raw = R.with_crc(frame_wo_crc)
            line.send("n2h", b"", raw, R.wire_raw(raw), kind)

        ncp = R.NcpEndpoint(loop, tape, ncp_emit, K=1, log=log)

        def host_write(data):
            fr = mon.on_host_write(data)
            ncan = 0
            while data[ncan] == R.CAN:
                ncan += 1
            raw, _ok = R.unstuff(data[ncan:-1])
            line.send("h2n", data[:ncan], raw, data, fr[0] if fr else "garbage")

        tr = SimTransport(loop, host_write, log=log)
        line.h2n.sink = ncp.feed
        line.n2h.sink = lambda chunk: (mon.on_host_read(chunk), tr.feed(chunk))
        tr.attach(proto)
        links[name] = {"proto": proto, "ncp": ncp, "mon": mon, "log": log, "out": {}}

    make("A")
    make("B")

    async def send(name, i):
        L = links[name]
        p = name.encode() + bytes([i]) + b"-payload"
        try:
            await L["proto"].send_data(p)
            L["out"][i] = ("ok", L["ncp"].delivered.count(p))
        except Exception as e:  # noqa: BLE001
            L["out"][i] = ("raised", type(e).__name__)

    async def main():
        n = params.get("n", 3)
        for i in range(n):
            # both links submit at the same instant: the same frame number is in flight on both
            await asyncio.gather(send("A", i), send("B", i))
        await asyncio.sleep(1.0)

    outcome, val = run_sim(loop, main())
    if outcome != "done":
        viol.append(("C01.live", "sim-" + outcome, f"twin links: simulation ended with {outcome}: {val!r}"))
    for name, L in links.items():
        for i, o in sorted(L["out"].items()):
            p = name.encode() + bytes([i]) + b"-payload"
            cnt = L["ncp"].delivered.count(p)
            if o[0] == "ok" and (o[1] != 1 or cnt != 1):
                viol.append(("C01.once", "twin-h2n-at-return", f"two links in one process, link {drop_first} loses its first frame: send {i} on link {name} returned normally, "
                             f"its NCP had received the payload {o[1]} time(s) at that moment ({cnt} in the end)"))
            elif o[0] == "raised":
                viol.append(("C01.live", "twin-send-raised", f"two links in one process: send {i} on link {name} raised {o[1]} although only one frame of one link was lost"))
        viol.extend(v for v in L["mon"].viol if v[0].startswith("C01."))
    sig = hashlib.blake2b(repr(("twin", drop_first, [(n_, sorted(L["out"].items())) for n_, L in links.items()])).encode(), digest_size=8).digest()
    return {"viol": viol, "faults": {"h2n.drop": 1}, "probes": {"two_links_one_process": 1}, "vt": loop.time(), "iters": loop.iters, "sig": sig, "nontrivial": True,
            "digest": hashlib.sha256(repr([(n_, L["log"]) for n_, L in links.items()]).encode()).hexdigest()[:16],
            "sample": {"scenario": "twin", "drop": drop_first, "outcomes": {n_: {str(k): str(v) for k, v in L["out"].items()} for n_, L in links.items()}}}


def run_ncp_repeat(params, tape, detail=False):
    """The NCP submits byte-identical payloads back to back (two identical callbacks, two identical replies) and one copy reaches the host only
    as a retransmission: payloads are told apart by their frame numbers, never by their content."""
    import asyncio
    import hashlib

    import bellows.ash as ash

    from .. import refash as R
    from ..ashmon import WireMonitor
    from ..line import FaultPlan, Line, SimTransport
    from ..loop import SimLoop, TimeShim, run_sim

    class NthPlan(FaultPlan):
        def __init__(self, tape, direction, nth):
            super().__init__(tape, True, {})
            self.direction, self.nth, self.k = direction, nth, 0

        def decide(self, direction):
            if direction == self.direction:
                self.k += 1
                if self.k == self.nth:
                    return "drop"
            return "deliver"

    loop = SimLoop(None, max_iters=100_000)
    ash.time = TimeShim(loop)
    log, viol = [], []
    K, nth = params["K"], params["nth"]
    line = Line(loop, tape, NthPlan(tape, "n2h", nth), log=log, chunking=False, nodup_kinds=("rst", "rstack"))
    line._latency = lambda: 0.001
    mon = WireMonitor(loop, payload_ok=None)
    upper = e1.HostUpper(loop, mon, log)
    proto = ash.AshProtocol(upper)

    def ncp_emit(frame_wo_crc, kind):
        raw = R.with_crc(frame_wo_crc)
        line.send("n2h", b"", raw, R.wire_raw(raw), kind)

    ncp = R.NcpEndpoint(loop, tape, ncp_emit, K=K, log=log)

    def host_write(data):
        fr = mon.on_host_write(data)
        ncan = 0
        while data[ncan] == R.CAN:
            ncan += 1
        raw, _ok = R.unstuff(data[ncan:-1])
        line.send("h2n", data[:ncan], raw, data, fr[0] if fr else "garbage")

    tr = SimTransport(loop, host_write, log=log)
    line.h2n.sink = ncp.feed
    line.n2h.sink = lambda chunk: (mon.on_host_read(chunk), tr.feed(chunk))
    tr.attach(proto)
    subs = [b"same", b"same", b"same", b"other", b"other"]

    async def main():
        for j, p in enumerate(subs):
            ncp.submit(p, j)
        await asyncio.sleep(30.0)

    outcome, val = run_sim(loop, main())
    got = [bytes(p) for p in upper.rx]
    if outcome != "done":
        viol.append(("C01.live", "sim-" + outcome, f"identical NCP payloads: simulation ended with {outcome}: {val!r}"))
    elif got != subs or len(ncp.acked) != len(subs):
        viol.append(("C01.once", "n2h-identical-payloads", f"the NCP (window {K}) submitted {subs}, its frame #{nth} was lost once; all {len(ncp.acked)} were acknowledged by the host, "
                     f"which handed up {got}"))
    sig = hashlib.blake2b(repr(("ncprepeat", K, nth, got)).encode(), digest_size=8).digest()
    return {"viol": viol, "faults": {"n2h.drop": 1}, "probes": {"identical_payloads_back_to_back": 1}, "vt": loop.time(), "iters": loop.iters, "sig": sig, "nontrivial": True,
            "digest": hashlib.sha256(repr(log).encode()).hexdigest()[:16], "sample": {"scenario": "ncp_repeat", "K": K, "nth": nth, "handed_up": [g.decode() for g in got]}}


def run(scenario, params, tape, detail=False):
    if scenario == "twin":
        return run_twin(params, tape, detail)
    if scenario == "ncp_repeat":
        return run_ncp_repeat(params, tape, detail)
    return e1.run(params, tape, detail=detail)

LEVEL_TEXT = ("seeded search over fault sequences and schedules (millions of runs per hour) with the real AshProtocol against an "
              "independent reference NCP, plus a complete sweep of fault assignments to the first frames; a clean batch is evidence, not proof")
