"""C06 - each EZSP command gets its own response; one in flight; keep-alives go first (engine E3)."""
import asyncio
import hashlib

import bellows.types as t

from .. import e3
from .. import refezsp as Z
from ..line import FaultPlan
from ..ncpmodel import St

ID = "C06"
LEVEL = "exploration"
ENGINE = "E3 stack"
TECHNIQUE = ("deterministic simulation: concurrent callers of mixed priority on the real EZSP stack against a reference NCP whose per-command "
             "behaviour (reply, late, never, twice, wrong sequence, callbacks around the reply), link faults, caller cancellations and "
             "same-instant schedules are all drawn from one seeded tape"
             ' The whole-stack soak (dst/soak.py: one ControllerApplication object through several connect/traffic/failure/reconnect epochs) is a further seeded scenario of this check.')
LEVEL_TEXT = ("seeded search over caller interleavings, per-command NCP behaviours, link faults and cancellation points with unique response "
              "values so every returned value is attributable; includes long runs that wrap the 8-bit sequence number; a clean batch is evidence, not proof")
COMPONENTS = e3.COMPONENTS
RULE = ("each run: 2-12 concurrent callers (or 300+ commands in 'long' runs) over 3 priority classes on NCP version {4,7,8,13,14}; per command one of "
        "{reply, reply at/after the 10 s timeout, never, duplicate, wrong sequence, callback before/after the reply}; optional swarm link faults after "
        "bring-up; ~12% of callers cancelled at a drawn instant. Non-trivial = some command did not get a plain prompt reply, or a fault/cancellation "
        "occurred; distinct = distinct (version, behaviour sequence, outcomes, start order) digests.")
ASSUMPTIONS = [
    "a late, duplicate or wrong-sequence reply whose (sequence, frame id) equals that of another request that is issued and unanswered is, byte for byte, a valid reply to it and is never generated",
    "a late reply to a call that already timed out may be swallowed silently (pinned by tests/test_ezsp_protocol.py::test_receive_reply_after_timeout)",
    "callbacks are stamped with the sequence of the last ordinary response, as firmware does",
    "link faults are enabled only after bring-up; if the link fails the stack stops and every later call raises (C10's subject)",
    "command payload schemas inside the NCP model are bellows' own tables",
]
PROBES = ["behaviour.sendfail", "behaviour.invdup", "duplicate_invalid_command", "behaviour.reply", "behaviour.late", "behaviour.never", "behaviour.dup", "behaviour.wrongseq", "behaviour.cb_before", "behaviour.cb_after",
          "call_ok", "call_timeout", "call_cancelled", "call_other_exc", "priority_overtake", "queued_behind_inflight", "seq_wrapped",
          "late_reply_swallowed", "dup_delivered_as_callback", "cancel_while_queued", "cancel_while_sending", "cancel_while_awaiting",
          "link_failed", "sched.batch", "sched.reorder", "twin.call_reply", "twin.call_cb", "twin.call_never", "twin.reconnected"]

VERSIONS = tuple(range(4, 15))
# name -> (priority class, kind)
CMDS = {
    "getValue": 999, "readCounters": 999, "nop": 999, "readAndClearCounters": 999,
    "getEui64": 0, "getNodeId": 0, "echo": 0,
    "setSourceRoute": -1, "sendUnicast": -1, "setExtendedTimeout": -1, "sendMulticast": -1, "sendBroadcast": -1,
}
NAMES = list(CMDS)
BEH = ["reply"] * 6 + ["late", "never", "dup", "wrongseq", "cb_before", "cb_after", "invdup"]
LATE = (10.0, 10.0, 10.5, 14.0)


def plan(tier):
    return {
        "sweeps": [("long", {"V": V, "n": 300, "faults": False, "sched": False}, None) for V in (4, 8, 14)]
        + [("twin", {"VA": a, "VB": b, "sched": False}, None) for (a, b) in ((8, 8), (4, 4), (13, 14), (7, 8))]
        # the sequence number wraps within less than one command timeout (256+ prompt commands back to back), then a command that is answered
        # slowly but in time / not at all: nothing left over from the command that used the same number 256 commands earlier may touch it
        + [("wrapfast", {"V": V, "n": n, "tail": tail, "faults": False, "sched": False}, None) for V in (4, 8, 14) for n in (256, 257, 300) for tail in ("slow", "never")],
        "sweep_random_tail": True,
        "exhaustive": "",
        "random": [("mix", {}, 6), ("long", {}, 1), ("twin", {}, 1), ("wrapfast", {}, 1), ("soak", {}, 1)],
        "runs": 2800 if tier == "quick" else None,
        "budget_s": 60 if tier == "quick" else 900,
        "batch": 25,
    }


def run_twin(params, tape, detail=False):
    """Two EZSP connections in one process (two coordinators), then one of them closed and opened again: the bookkeeping of one connection
    (pending table, sequence numbers) must never answer, swallow or time out anything of another - not a concurrent one, not a later one."""
    import bellows.uart
    import zigpy.serial

    VA = params.get("VA") or VERSIONS[tape.draw(len(VERSIONS), "VA")]
    VB = params.get("VB") or VERSIONS[tape.draw(len(VERSIONS), "VB")]
    rigA = e3.StackRig(tape, version=VA, sched=params.get("sched", True), fast_line=True, chunking=False, max_iters=600_000)
    rigB = e3.StackRig(tape, version=VB, loop=rigA.loop, fast_line=True, chunking=False)
    loop = rigA.loop
    viol, probes = [], {}

    def probe(n, k=1):
        probes[n] = probes.get(n, 0) + k

    counter = [0]

    def token():
        counter[0] += 1
        return counter[0]

    insts = {"A": {"rig": rigA, "cur": None, "beh": None, "cbs": [], "cb_emitted": []}, "B": {"rig": rigB, "cur": None, "beh": None, "cbs": [], "cb_emitted": []}}

    def wire(inst):
        ncp = inst["rig"].ncp

        def h_getValue(req, valueId):
            inst["cur"] = tk = token()
            return (St("OK"), tk.to_bytes(4, "little"))

        def h_getEui64(req):
            inst["cur"] = tk = token()
            return (t.EUI64.deserialize(tk.to_bytes(8, "little"))[0],)

        def h_getNodeId(req):
            inst["cur"] = tk = token() & 0xFFFF
            return (tk,)

        ncp.h_getValue, ncp.h_getEui64, ncp.h_getNodeId = h_getValue, h_getEui64, h_getNodeId

        def deliver(req, payload):
            b = inst["beh"]
            if b is None:  # bring-up traffic
                req.nrsp += 1
                ncp.emit(payload, 0.0, "rsp", req.seq)
                return
            inst["beh_seen"] = b
            if b[0] == "never":
                return

            def reply():
                req.nrsp += 1
                ncp.emit(payload, 0.0, "rsp", req.seq)
                if b[0] == "cb":
                    tk = token() & 0xFFFF
                    inst["cb_emitted"].append(tk)
                    ncp.callback("incomingRouteErrorHandler", (St("DELIVERY_FAILED"), tk), 0.001, seq=req.seq)

            if b[1]:
                loop.external(loop.time() + b[1], reply, group="ncp-app")
            else:
                reply()

        ncp.deliver = deliver

    async def connect(inst):
        rig = inst["rig"]
        zigpy.serial.create_serial_connection = rig._create_serial_connection
        bellows.uart.zigpy.serial.create_serial_connection = rig._create_serial_connection
        inst["beh"] = None
        ez = await rig.bringup()
        ez.add_callback(lambda name, args, _i=inst: _i["cbs"].append((name, list(args))))
        return ez

    NAMES3 = ("getValue", "getEui64", "getNodeId")

    async def one(inst, ez, name, beh, label):
        inst["beh"], inst["cur"] = beh, None
        t0 = loop.time()
        try:
            if name == "getValue":
                r = await ez.getValue(valueId=t.EzspValueId.VALUE_FREE_BUFFERS)
            elif name == "getEui64":
                r = await ez.getEui64()
            else:
                r = await ez.getNodeId()
            out = ("ok", _token_of(name, list(r)))
        except asyncio.TimeoutError:
            out = ("timeout", loop.time() - t0)
        except Exception as e:  # noqa: BLE001
            out = ("exc", e)
        want = inst["cur"]
        probe("twin.call_" + beh[0])
        if beh[0] == "never":
            if out[0] != "timeout":
                viol.append(("C06.cross", "completed-without-reply", f"twin {label}: {name} was never answered by its own NCP but ended with {out!r}"))
            elif abs(out[1] - 10.0) > 0.05:
                viol.append(("C06.timeout", "when", f"twin {label}: unanswered {name} raised TimeoutError after {out[1]:.4f}s"))
        elif out[0] == "timeout":
            viol.append(("C06.own", "reply-ignored", f"twin {label}: {name} timed out although its own NCP replied under its sequence after {beh[1]}s"))
        elif out[0] == "exc":
            viol.append(("C06.own", "unexpected-exception", f"twin {label}: {name} raised {out[1]!r}"))
        elif want is not None and out[1] != want:
            viol.append(("C06.own", "foreign-payload", f"twin {label}: {name} returned token {out[1]}, its own NCP's response carried {want}"))
        return out

    def check_cbs(inst, label):
        got = [a[1] for (n, a) in inst["cbs"] if n == "incomingRouteErrorHandler"]
        for tk in inst["cb_emitted"]:
            if got.count(tk) != 1:
                viol.append(("C06.cb", "callback-count", f"twin {label}: callback frame with token {tk} was delivered {got.count(tk)} times to this connection's callback"))
                break
        extra = [g for g in got if g not in inst["cb_emitted"]]
        if extra:
            viol.append(("C06.cb", "alien-callback", f"twin {label}: callback tokens {extra[:3]} arrived that this connection's NCP never emitted"))

    async def main():
        wire(insts["A"])
        wire(insts["B"])
        ezA = await connect(insts["A"])
        ezB = await connect(insts["B"])
        n = params.get("n") or 6 + tape.draw(12, "n")
        behs = (("reply", 0.0), ("reply", 0.05), ("reply", 0.3), ("cb", 0.02), ("never", 0.0), ("reply", 0.002))

        async def traffic(key, ez):
            for i in range(n):
                name = NAMES3[tape.draw(3, "cmd")]
                beh = behs[tape.draw(len(behs), "beh")]
                await one(insts[key], ez, name, beh, f"{key}#{i}")

        # phase 1: both connections busy at once; sequence numbers run in step, so equal numbers are in flight on both links
        await asyncio.gather(traffic("A", ezA), traffic("B", ezB))
        await asyncio.sleep(1.0)
        check_cbs(insts["A"], "A")
        check_cbs(insts["B"], "B")
        # phase 2: connection A leaves an unanswered command behind, is closed and opened again (sequence numbers restart); B stays up
        await one(insts["A"], ezA, "getValue", ("never", 0.0), "A#stale")
        ezA.close()
        await asyncio.sleep(0.5)
        insts["A"]["cbs"], insts["A"]["cb_emitted"] = [], []
        ezA2 = await connect(insts["A"])
        probe("twin.reconnected")
        m = 260 if params.get("wrap") else 24 + tape.draw(40, "m")
        for i in range(m):
            await one(insts["A"], ezA2, NAMES3[i % 3], ("cb", 0.0) if i % 2 == 0 else ("reply", 0.0), f"A2#{i}")
            if i % 5 == 0:
                await one(insts["B"], ezB, NAMES3[(i // 5) % 3], ("cb", 0.001), f"B-later#{i}")
        await asyncio.sleep(1.0)
        check_cbs(insts["A"], "A2")
        check_cbs(insts["B"], "B")

    outcome, val = rigA.run(main())
    if outcome != "done":
        viol.append(("C06.live", "sim-" + outcome, f"twin: simulation ended with {outcome}: {val!r}"))
    seen, uniq = set(), []
    for v in viol:
        if (v[0], v[1]) not in seen:
            seen.add((v[0], v[1]))
            uniq.append(v)
    sig = hashlib.blake2b(repr((VA, VB, counter[0], len(insts["A"]["cbs"]), len(insts["B"]["cbs"]))).encode(), digest_size=8).digest()
    res = {"viol": uniq, "faults": {}, "probes": probes, "vt": loop.time(), "iters": loop.iters, "sig": sig, "nontrivial": True,
           "digest": hashlib.sha256(repr((rigA.log[-200:], rigB.log[-200:], loop.time(), loop.iters)).encode()).hexdigest()[:16],
           "sample": {"scenario": "twin", "VA": VA, "VB": VB, "tokens": counter[0], "callbacks_A": len(insts["A"]["cbs"]), "callbacks_B": len(insts["B"]["cbs"])}}
    if detail:
        res["trace"] = [repr(e) for e in rigA.log[-150:]] + ["--- B ---"] + [repr(e) for e in rigB.log[-150:]]
    return res


def run(scenario, params, tape, detail=False):
    if scenario == "twin":
        return run_twin(params, tape, detail)
    if scenario == "soak":
        # the whole-stack soak (dst/soak.py): one application object through several connection epochs with traffic, failures and
        # reconnects; this check reports the clauses of its own property from it
        from .. import soak

        return soak.run(params, tape, detail=detail)
    V = params["V"] if "V" in params else VERSIONS[tape.draw(len(VERSIONS), "V")]
    long_run = scenario in ("long", "wrapfast")
    wrapfast = scenario == "wrapfast"
    faults = params["faults"] if "faults" in params else (tape.draw(4, "faults?") == 3)
    plan_ = FaultPlan.swarm(tape) if faults else FaultPlan(tape, False)
    plan_.on = False  # bring-up is fault-free
    K = 1 + tape.draw(3, "K")
    rig = e3.StackRig(tape, version=V, plan=plan_, K=K, sched=params.get("sched", True), max_iters=600_000, fast_line=(scenario == "wrapfast" and not faults))
    rig.line.ties = False
    loop, ncp = rig.loop, rig.ncp
    viol, probes = [], {}

    def probe(n, k=1):
        probes[n] = probes.get(n, 0) + k

    calls = []
    evno = [0]

    def ev():
        evno[0] += 1
        return evno[0]

    counter = [0]
    expected = {}  # Req.idx -> token
    cb_emitted = []  # tokens of callback frames the NCP emitted
    dup_emitted = []  # (name, token)
    cbs = []  # (name, args) seen by the registered callback
    cbs2 = []
    beh_seq = []

    def token():
        counter[0] += 1
        return counter[0]

    def outstanding_same(seq, fid, exclude_idx=None):
        """Is there a request issued by the host and unanswered with this (seq, frame id)?"""
        for c in calls:
            if c["started"] and not c["ended"] and c["seq"] == seq and c["fid"] == fid and c.get("req_idx") != exclude_idx:
                return True
        return False

    # ---- unique response values
    def h_getValue(req, valueId):
        tk = token(); expected[req.idx] = tk
        return (St("OK"), tk.to_bytes(4, "little"))

    def h_readCounters(req):
        tk = token(); expected[req.idx] = tk
        return ([tk & 0xFFFF, tk >> 16] + [0] * 39,)

    def h_nop(req):
        expected[req.idx] = None
        return ()

    def h_getEui64(req):
        tk = token(); expected[req.idx] = tk
        return (t.EUI64.deserialize(tk.to_bytes(8, "little"))[0],)

    def h_getNodeId(req):
        tk = token(); expected[req.idx] = tk & 0xFFFF
        return (tk & 0xFFFF,)

    def h_echo(req, data):
        tk = token(); expected[req.idx] = tk
        return (tk.to_bytes(4, "little"),)

    def h_setSourceRoute(req, **kw):
        expected[req.idx] = None
        return (St("OK"),)

    def h_setExtendedTimeout(req, **kw):
        expected[req.idx] = None
        return (St("OK"),) if V >= 14 else ()

    def h_readAndClearCounters(req):
        tk = token(); expected[req.idx] = tk
        return ([tk & 0xFFFF, tk >> 16] + [0] * 39,)

    def h_networkState(req):
        tk = token(); expected[req.idx] = tk % 5
        return (tk % 5,)

    def h_sendMulticast(req, **kw):
        tk = token(); expected[req.idx] = tk & 0xFF
        return (St("OK"), tk & 0xFF)

    def h_sendBroadcast(req, **kw):
        tk = token(); expected[req.idx] = tk & 0xFF
        return (St("OK"), tk & 0xFF)

    def h_sendUnicast(req, **kw):
        tk = token(); expected[req.idx] = tk & 0xFF
        return (St("OK"), tk & 0xFF)

    for n_, h_ in list(locals().items()):
        if n_.startswith("h_"):
            setattr(ncp, n_, h_)

    normal_seq = [0]

    def emit_cb():
        tk = token()
        cb_emitted.append(tk & 0xFFFF)
        ncp.callback("incomingRouteErrorHandler", (St("DELIVERY_FAILED"), tk & 0xFFFF), 0.0, seq=normal_seq[0])

    def deliver(req, payload):
        if not workload_on[0]:
            req.nrsp += 1
            ncp.emit(payload, 0.0, "rsp", req.seq)
            return
        if wrapfast:
            nwork[0] += 1
            b = "reply" if nwork[0] <= wf["n"] else wf["tail"]
        else:
            b = BEH[tape.draw(len(BEH), "beh")]
        beh_seq.append(b)
        probe("behaviour." + b)
        req_beh[req.idx] = b

        def reply(seq=req.seq, check=False, kind="rsp"):
            if check and outstanding_same(seq, req.fid, exclude_idx=req.idx):
                return  # would be indistinguishable from a genuine reply to that request
            pl = payload if seq == req.seq else Z.header(ncp.V, seq, req.fid) + payload[len(Z.header(ncp.V, 0, 0)):]
            if kind == "rsp" and seq == req.seq:
                normal_seq[0] = seq
            req.nrsp += 1
            ncp.emit(pl, 0.0, "rsp")

        if b == "slow":
            loop.external(loop.time() + wf["slow_d"], reply, group="ncp-app")
        elif b == "reply":
            d = 0.0 if wrapfast else (0.0, 0.0, 0.001, 0.05)[tape.draw(4, "rdelay")]
            if d:
                loop.external(loop.time() + d, reply, group="ncp-app")
            else:
                reply()
        elif b == "late":
            loop.external(loop.time() + LATE[tape.draw(4, "late")], lambda: reply(check=True), group="ncp-app")
        elif b == "dup":
            reply()
            d2 = (0.002, 0.5, 12.0)[tape.draw(3, "dupd")]

            def second():
                if outstanding_same(req.seq, req.fid, exclude_idx=req.idx) or stale_seq(req.seq):
                    return
                dup_emitted.append((req.name, expected.get(req.idx)))
                reply(kind="dup")

            loop.external(loop.time() + d2, second, group="ncp-app")
        elif b == "wrongseq":
            for k in (100, 128, 156, 77):
                s2 = (req.seq + k) % 256
                if not outstanding_same(s2, req.fid) and not stale_seq(s2):
                    wrong_emitted.append((req.name, expected.get(req.idx)))
                    loop.external(loop.time() + 0.001, lambda s2=s2: reply(seq=s2, check=True, kind="wrong"), group="ncp-app")
                    break
        elif b == "invdup":
            # the NCP rejects this command (invalidCommand under its sequence) - and says so twice: the second copy answers nothing any more,
            # whatever is in flight by then
            inv = Z.header(ncp.V, req.seq, Z.ID_INVALID_COMMAND) + ncp.invalid_body(0x31)
            req.nrsp += 1
            normal_seq[0] = req.seq
            ncp.emit(inv, 0.0, "rsp")

            def again():
                others = [c for c in calls if c["seq"] == req.seq and c.get("raw") != req.raw]  # (other calls that used this sequence number)
                if any(c["started"] and not c["ended"] for c in others) or any(c["ended"] and c["result"] and c["result"][0] != "ok" for c in others):
                    return
                probe("duplicate_invalid_command")
                ncp.emit(inv, 0.0, "rsp")

            loop.external(loop.time() + (0.002, 0.03, 0.5)[tape.draw(3, "invd")], again, group="ncp-app")
        elif b == "cb_before":
            emit_cb()
            loop.external(loop.time() + 0.001, reply, group="ncp-app")
        elif b == "cb_after":
            reply()
            loop.external(loop.time() + 0.001, emit_cb, group="ncp-app")
        # never: nothing

    def stale_seq(seq):
        """A call with this sequence ended without its reply (the host keeps a stale _awaiting entry that swallows frames)."""
        for c in calls:
            if c["seq"] == seq and c["ended"] and c["result"] and c["result"][0] != "ok":
                return True
        return False

    req_beh = {}
    nwork = [0]
    wf = {}
    if wrapfast:
        wf["n"] = params.get("n") or 256 + tape.draw(60, "wf.n")
        wf["tail"] = params.get("tail") or ("slow", "never")[tape.draw(2, "wf.tail")]
        wf["slow_d"] = (5.0, 8.0, 9.1, 9.0)[tape.draw(4, "wf.d")]  # + up to 0.8 s of line latency stays inside the 10 s if "tail" not in params else 8.0
    wrong_emitted = []
    workload_on = [False]
    ncp.deliver = deliver
    cur = {}
    last_release = [0]
    state = {"link_failed": False}

    def on_send_data(data):
        c = cur.get(asyncio.current_task())
        if c is None:
            return
        c["started"] = ev()
        c["t_start"] = loop.time()
        c["seq"] = data[0]
        c["raw"] = data
        inflight = [x for x in calls if x is not c and x["started"] and not x["ended"]]
        if inflight:
            viol.append(("C06.one", "two-in-flight", f"call {c['id']} ({c['name']}) handed to the gateway while {[(x['id'], x['name']) for x in inflight]} still in flight"))
        q = [x for x in calls if x is not c and not x["started"] and not x["ended"] and not x["cancel_req"] and 0 < x["invoked"] < last_release[0]]
        better = [x for x in q if (x["prio"], -x["invoked"]) > (c["prio"], -c["invoked"])]
        if better:
            how = "queued" if c["invoked"] < last_release[0] else "arrived after the release"
            viol.append(("C06.prio", "order", f"call {c['id']} ({c['name']}, prio {c['prio']}, {how}) started before queued {[(x['id'], x['name'], x['prio']) for x in better]}"))
        if q and not better and any(x["invoked"] < c["invoked"] for x in q):
            probe("priority_overtake")
        if workload_on[0] and not wrapfast and tape.draw(24, "sendfail") == 23:
            # a link-level send failure confined to THIS command (its frame is not written; the link layer reports the failure to the caller):
            # the caller sees it, nobody else does
            import bellows.ash as _ash

            c["sendfail"] = True
            probe("behaviour.sendfail")
            raise _ash.NcpFailure(code=t.NcpResetCode.ERROR_EXCEEDED_MAXIMUM_ACK_TIMEOUT_COUNT)

    def on_send_done(data, exc):
        c = cur.get(asyncio.current_task())
        if c is not None:
            c["t_sent"] = loop.time()
            c["send_exc"] = exc

    rig.on_send_data = on_send_data
    rig.on_send_done = on_send_done

    async def invoke(ez, c):
        n = c["name"]
        if n == "getValue":
            return await ez.getValue(valueId=t.EzspValueId.VALUE_FREE_BUFFERS)
        if n == "readCounters":
            return await ez.readCounters()
        if n == "nop":
            return await ez.nop()
        if n == "getEui64":
            return await ez.getEui64()
        if n == "getNodeId":
            return await ez.getNodeId()
        if n == "echo":
            return await ez.echo(data=b"x")
        if n == "setSourceRoute":
            return await ez.setSourceRoute(destination=0x1234, relayList=[])
        if n == "readAndClearCounters":
            return await ez.readAndClearCounters()
        if n == "networkState":
            return await ez.networkState()
        if n == "setExtendedTimeout":
            return await ez.setExtendedTimeout(remoteEui64=t.EUI64.convert("00:11:22:33:44:55:66:77"), extendedTimeout=True)
        if n in ("sendMulticast", "sendBroadcast"):
            apsf = t.EmberApsFrame(profileId=260, clusterId=6, sourceEndpoint=1, destinationEndpoint=1, options=t.EmberApsOption.APS_OPTION_NONE, groupId=0x1234, sequence=1)
            if n == "sendMulticast":
                if V >= 14:
                    return await ez.sendMulticast(aps_frame=apsf, hops=0, broadcast_addr=t.BroadcastAddress.RX_ON_WHEN_IDLE, alias=0, sequence=1, message_tag=2, message=b"m")
                return await ez.sendMulticast(apsFrame=apsf, hops=0, nonmemberRadius=3, messageTag=2, messageContents=b"m")
            if V >= 14:
                return await ez.sendBroadcast(alias=0, destination=t.BroadcastAddress.RX_ON_WHEN_IDLE, sequence=1, aps_frame=apsf, radius=0, message_tag=3, message=b"m")
            return await ez.sendBroadcast(destination=0xFFFD, apsFrame=apsf, radius=0, messageTag=3, messageContents=b"m")
        aps = t.EmberApsFrame(profileId=260, clusterId=6, sourceEndpoint=1, destinationEndpoint=1, options=t.EmberApsOption.APS_OPTION_NONE, groupId=0, sequence=1)
        if V >= 14:
            return await ez.sendUnicast(message_type=t.EmberOutgoingMessageType.OUTGOING_DIRECT, nwk=0x1234, aps_frame=aps, message_tag=1, message=b"m")
        return await ez.sendUnicast(type=t.EmberOutgoingMessageType.OUTGOING_DIRECT, indexOrDestination=0x1234, apsFrame=aps, messageTag=1, messageContents=b"m")

    async def caller(ez, c):
        cur[asyncio.current_task()] = c
        c["invoked"] = ev()
        c["t_invoked"] = loop.time()
        if any(x["started"] and not x["ended"] for x in calls if x is not c):
            probe("queued_behind_inflight")
        try:
            r = await invoke(ez, c)
            c["result"] = ("ok", list(r))
        except asyncio.CancelledError:
            c["result"] = ("cancelled",)
            raise
        except Exception as e:
            c["result"] = ("exc", type(e).__name__, e)
        finally:
            c["ended"] = ev()
            c["t_end"] = loop.time()
            if c["started"]:
                last_release[0] = c["ended"]

    tasks = []

    async def main():
        ez = await rig.bringup()
        ez.add_callback(lambda name, args: cbs.append((name, list(args))))
        ez.add_callback(lambda name, args: cbs2.append((name, list(args))))
        fid_of = {n: ncp.cmds[n][0] for n in NAMES}
        workload_on[0] = True
        if faults:
            plan_.on = True
        n = params.get("n") or ((300 + 40 * tape.draw(4, "nlong")) if long_run else 2 + tape.draw(11, "n"))
        if wrapfast:
            n = wf["n"] + 3  # the slow / unanswered tail: three commands, each the 257th after an earlier one
        tt = loop.time()
        gaps = (0.0, 0.0, 0.0005, 0.01, 0.3) if long_run else (0.0, 0.0, 0.0005, 0.01, 1.0, 11.0)
        if wrapfast:
            # 256 commands spread over 1.3-7.7 s: whatever the command that used a sequence number 256 commands ago left behind (a timer, an
            # entry) comes due while the slow tail command that reuses the number is still waiting for its reply
            gaps = (0.02,) if "tail" in params else ((0.005,), (0.02,), (0.03,), (0.005, 0.03))[tape.draw(4, "wf.gaps")]
        for i in range(n):
            tt += gaps[tape.draw(len(gaps), "gap")]
            name = NAMES[tape.draw(len(NAMES), "cmd")]
            c = dict(id=i, name=name, prio=CMDS[name], fid=fid_of[name], invoked=0, started=0, ended=0, cancel_req=0, result=None, seq=None, t_sent=None)
            calls.append(c)

            def start(c=c):
                tasks.append((c, loop.create_task(caller(ez, c), name=f"call-{c['id']}")))

            loop.external(tt, start, group=None)
            if not long_run and tape.draw(8, "cancel?") == 7:
                def cancel(c=c):
                    for cc, tk in tasks:
                        if cc is c and not tk.done():
                            c["cancel_req"] = ev()
                            probe("cancel_while_queued" if not c["started"] else ("cancel_while_sending" if c["t_sent"] is None else "cancel_while_awaiting"))
                            tk.cancel()

                loop.external(tt + (0.0, 0.0005, 0.002, 5.0, 10.0)[tape.draw(5, "cancel_at")], cancel, group=None)
        await asyncio.sleep(tt - loop.time() + 40.0)
        plan_.stop()
        # once faults have stopped every call must end: each holds the slot for at most 10 s + the link's retry time
        deadline = loop.time() + 60.0 + n * 27.0
        while loop.time() < deadline and (len(tasks) < n or any(not tk.done() for _c, tk in tasks)):
            await asyncio.sleep(5.0)
        await asyncio.sleep(15.0)  # let late/duplicate replies drain
        # C06.live: a fresh command after everything settled
        workload_on[0] = False
        if ez.is_ezsp_running:
            try:
                r = await ez.getEui64()
                state["fresh"] = ("ok", r)
            except Exception as e:
                state["fresh"] = ("exc", repr(e))
        else:
            state["link_failed"] = True

    outcome, val = rig.run(main())
    if outcome != "done":
        viol.append(("C06.live", "sim-" + outcome, f"simulation ended with {outcome}: {val!r}"))

    # ------------------------------------------------------------------ oracle
    link_failed = state["link_failed"] or bool(rig.reset_notes and any(w == "failure" for (_t, _c, w) in rig.reset_notes)) or rig.ncp_ash.failed is not None
    if link_failed:
        probe("link_failed")
    pend = [c["id"] for c in calls if c["invoked"] and not c["ended"]]
    if pend and outcome == "done":
        viol.append(("C06.live", "pending", f"calls {pend[:8]} neither returned nor raised within 60 s + 27 s per call after faults stopped"))
    if outcome == "done" and not link_failed and state.get("fresh", ("ok",))[0] != "ok":
        viol.append(("C06.live", "fresh-command", f"a fresh command after the workload settled failed: {state.get('fresh')}"))
    started = sorted((c for c in calls if c["started"]), key=lambda c: c["started"])
    seqs = [c["seq"] for c in started]
    for a, b, ca, cb in zip(seqs, seqs[1:], started, started[1:]):
        if (a + 1) % 256 != b:
            viol.append(("C06.seq", "step", f"request of call {cb['id']} carries sequence {b} after {a} (call {ca['id']})"))
            break
    if len(started) > 256:
        probe("seq_wrapped")
    # map calls to the NCP's requests (same raw bytes, in order)
    used = set()
    for c in started:
        if c.get("sendfail"):
            continue  # its frame was never written (after the sequence wraps, a later call can carry byte-identical request bytes)
        for r in ncp.requests:
            if r.idx not in used and r.raw == c["raw"] and r.t >= c["t_start"] - 1e-9:
                c["req_idx"] = r.idx
                used.add(r.idx)
                break
    for c in calls:
        res = c["result"]
        if res is None:
            continue
        if res[0] == "ok":
            probe("call_ok")
            ri = c.get("req_idx")
            if ri is None:
                viol.append(("C06.own", "no-request", f"call {c['id']} ({c['name']}) returned {res[1]} but its request never reached the NCP"))
                continue
            if req_beh.get(ri) in ("never", "wrongseq") and ncp.requests[ri].nrsp == 0:
                viol.append(("C06.cross", "completed-without-reply", f"call {c['id']} ({c['name']}, seq {c['seq']}) returned {res[1]} although the NCP never answered its request"))
                continue
            tk = expected.get(ri)
            got = _token_of(c["name"], res[1])
            if tk is not None and got != tk:
                viol.append(("C06.own", "foreign-payload", f"call {c['id']} ({c['name']}, seq {c['seq']}) returned token {got}, the NCP's response to its request carried {tk}"))
            if req_beh.get(ri) == "never" or (req_beh.get(ri) == "wrongseq"):
                viol.append(("C06.cross", "completed-by-foreign-frame", f"call {c['id']} ({c['name']}) returned although no reply with its sequence was ever emitted (behaviour {req_beh.get(ri)})"))
        elif res[0] == "exc":
            if res[1] == "TimeoutError":
                probe("call_timeout")
                if c["t_sent"] is not None and c.get("send_exc") is None:
                    if c["t_end"] < c["t_invoked"] + 10.0 - 1e-9:
                        viol.append(("C06.timeout", "early", f"call {c['id']} raised TimeoutError at t={c['t_end']:.6f}, only {c['t_end'] - c['t_invoked']:.6f}s after it was issued"))
                    if c["t_end"] > c["t_sent"] + 10.0 + 1e-6:
                        viol.append(("C06.timeout", "late", f"call {c['id']} raised TimeoutError at t={c['t_end']:.6f}, {c['t_end'] - c['t_sent']:.6f}s after its request was handed over"))
                    ri = c.get("req_idx")
                    if ri is not None and req_beh.get(ri) in ("reply", "cb_before", "cb_after", "dup", "slow") and not faults:
                        viol.append(("C06.own", "reply-ignored", f"call {c['id']} ({c['name']}, seq {c['seq']}) timed out although the NCP replied promptly under its sequence"))
            else:
                probe("call_other_exc")
                ri_ = c.get("req_idx")
                if ri_ is not None and req_beh.get(ri_) == "invdup" and res[1] == "InvalidCommandError":
                    probe("call_rejected_by_ncp")
                elif c.get("sendfail"):
                    if res[1] != "NcpFailure":
                        viol.append(("C06.own", "send-failure-not-relayed", f"call {c['id']} ({c['name']}): its send failed at the link layer, the caller saw {res[2]!r}"))
                elif not faults and not link_failed and res[1] not in ("EzspError",):
                    viol.append(("C06.own", "unexpected-exception", f"call {c['id']} ({c['name']}) raised {res[2]!r} on a fault-free link"))
        else:
            probe("call_cancelled")
    # callbacks: every callback frame exactly once to each registered callback (ASH delivers exactly once while the link is up)
    if not link_failed and outcome == "done":
        for recorder, label in ((cbs, "first"), (cbs2, "second")):
            got = [a[1] for (n, a) in recorder if n == "incomingRouteErrorHandler"]
            for tk in cb_emitted:
                k = got.count(tk)
                if k != 1:
                    viol.append(("C06.cb", "callback-count", f"callback frame with token {tk} was delivered {k} times to the {label} registered callback"))
                    break
            extra = [g for g in got if g not in cb_emitted]
            if extra:
                viol.append(("C06.cb", "alien-callback", f"{label} callback received incomingRouteErrorHandler tokens {extra[:3]} that were never emitted"))
        for (name, tk) in dup_emitted:
            if tk is None:
                continue
            k = sum(1 for (n, a) in cbs if n == name and _token_of(name, a) == tk)
            emitted = dup_emitted.count((name, tk)) + wrong_emitted.count((name, tk))  # 8/16-bit tokens repeat in long runs; wrong-sequence replies are dispatched too
            if 1 <= k <= emitted:
                probe("dup_delivered_as_callback")
            elif k > emitted:
                viol.append(("C06.cb", "dup-count", f"duplicate reply {name} token {tk} was emitted {emitted} time(s) but reached the callbacks {k} times"))
            elif k == 0 and not faults:
                # (the generator only emits a duplicate when no call is registered under its sequence any more: it answers no pending call)
                viol.append(("C06.cb", "dup-lost", f"duplicate reply {name} token {tk} answered no pending call (its call had completed) and reached the callbacks 0 times"))
    for k, v in rig.probes().items():
        probes[k] = probes.get(k, 0) + v
    outcomes = tuple((c["name"], c["result"][0] if c["result"] else None) for c in calls)
    order = tuple(c["id"] for c in started)
    sig = hashlib.blake2b(repr((V, tuple(beh_seq[:80]), outcomes[:80], order[:80])).encode(), digest_size=8).digest()
    fired = dict(plan_.fired) if faults else {}
    nontrivial = any(b != "reply" for b in beh_seq) or any(c["cancel_req"] for c in calls) or any(not k.endswith(".deliver") for k in fired)
    res = {"viol": viol, "faults": fired, "probes": probes, "vt": loop.time(), "iters": loop.iters, "sig": sig, "nontrivial": bool(nontrivial),
           "digest": hashlib.sha256(repr((rig.log, outcomes, order, loop.time(), loop.iters)).encode()).hexdigest()[:16],
           "sample": {"V": V, "scenario": scenario, "faults": faults, "calls": [(c["id"], c["name"], c["prio"], c["seq"], c["result"][0] if c["result"] else None) for c in calls[:14]],
                      "behaviours": beh_seq[:14], "start_order": list(order[:14])}}
    if detail:
        res["trace"] = [repr(e) for e in rig.log[:500]]
    return res


def _token_of(name, vals):
    try:
        if name == "getValue" or name == "echo":
            return int.from_bytes(bytes(vals[-1]), "little")
        if name == "readCounters":
            v = list(vals[0])
            return int(v[0]) | (int(v[1]) << 16)
        if name == "getEui64":
            return int.from_bytes(bytes(vals[0].serialize()), "little")
        if name == "getNodeId":
            return int(vals[0])
        if name in ("sendUnicast", "sendMulticast", "sendBroadcast"):
            return int(vals[1])
        if name == "readAndClearCounters":
            v = list(vals[0])
            return int(v[0]) | (int(v[1]) << 16)
        if name == "networkState":
            return int(vals[0])
    except Exception:
        return ("undecodable", repr(vals))
    return None
