"""C12 - a unicast is reported delivered only on its own delivery confirmation (engine E3 with the application)."""
import asyncio
import hashlib

import zigpy.exceptions
import zigpy.types as zt

from .. import e3app
from ..c08util import decodes
from ..ncpmodel import STATUS, St

ID = "C12"
LEVEL = "exploration"
ENGINE = "E3 stack"
TECHNIQUE = ("deterministic simulation: 1-8 concurrent send_packet calls on the real ControllerApplication (started through connect()/start_network()) against the "
             "reference NCP, which answers each enqueue attempt {OK, busy x3 kinds, refusal} and emits delivery confirmations {success, failure, never, duplicate, "
             "wrong tag, wrong destination, unsolicited, before the enqueue response} at drawn virtual times; caller cancellation at drawn instants; outcomes are "
             "compared with a reference model and the NCP-side command stream is checked for interleaving"
             ' The whole-stack soak (dst/soak.py: one ControllerApplication object through several connect/traffic/failure/reconnect epochs) is a further seeded scenario of this check.')
LEVEL_TEXT = ("seeded search over request mixes (plain / source-routed / extended-timeout / IEEE-addressed unicasts, multicast, broadcast), per-attempt enqueue "
              "statuses, confirmation behaviours, cancellation points and versions 4..14, plus a complete sweep of single-request scripts "
              "(enqueue status sequence x confirmation behaviour); virtual time makes the 120 s confirmation timeout and the 0.5/1.0/1.5 s retry spacing exact")
COMPONENTS = e3app.COMPONENTS
RULE = ("sweep: (version, request kind, enqueue status sequence, confirmation behaviour) for one request; random: 1-8 concurrent requests with drawn scripts and "
        "cancellations. Non-trivial = some attempt was not accepted at once, or the confirmation was not a single prompt success, or a caller was cancelled, "
        "or >= 2 requests overlapped; distinct = distinct (version, request scripts, outcomes).")
ASSUMPTIONS = [
    "the zigpy.util.Requests compatibility shim (dst/compat.py) behaves like the class this bellows was written against",
    "multicast and broadcast return after the enqueue (no confirmation is awaited), by design",
    "confirmations are emitted only for accepted enqueues (as firmware does), except the explicitly unsolicited ones; every request of a run has its own destination, except in the `samedest` series where they share one",
    "command payload schemas inside the NCP model are bellows' own tables; messageSentHandler frames are built with them in the version's field order",
]
PROBES = ["message_tag_zero", "kind.plain", "kind.route", "kind.exttimeout", "kind.ieee", "kind.multicast", "kind.broadcast", "enqueue.busy_then_ok", "enqueue.busy_x3", "enqueue.refused",
          "confirm.success", "confirm.failure", "confirm.never", "confirm.duplicate", "confirm.wrong_tag", "confirm.wrong_dest", "confirm.unsolicited",
          "confirm.before_response", "confirm.stale_repeat", "series_same_tsn", "series_distinct_tsn", "cancelled", "overlapping_requests", "timeout_120s", "setup_commands_seen"]

VERSIONS = tuple(range(4, 15))
BUSY = ("MAX_MESSAGE_LIMIT_REACHED", "NETWORK_BUSY", "NO_BUFFERS")
REFUSE = ("NETWORK_DOWN", "INVALID_CALL")
CONFIRMS = ("success", "failure", "never", "duplicate", "wrong_tag", "wrong_dest", "before_response", "wrong_then_right", "late_119", "late_121", "early_in_backoff")
KINDS = ("plain", "route", "exttimeout", "ieee", "multicast", "broadcast")
ENQ_SCRIPTS = (("OK",), ("B", "OK"), ("B", "B", "OK"), ("B", "B", "B"), ("R",), ("B", "R"))
SETUP = ("getExtendedTimeout", "lookupNodeIdByEui64", "setExtendedTimeout", "replaceAddressTableEntry", "setSourceRoute")
SENDS = ("sendUnicast", "sendMulticast", "sendBroadcast")


def plan(tier):
    sweeps = []
    for V in VERSIONS:
        for kind in KINDS:
            for enq in range(len(ENQ_SCRIPTS)):
                confs = CONFIRMS if kind in ("plain", "route", "exttimeout", "ieee") else ("success",)
                sweeps.append(("single", {"V": V, "kind": kind, "enq": enq, "confs": list(confs), "sched": False}))
    return {
        "sweeps": sweeps,
        "exhaustive": "versions 4..14 x request kind x enqueue status script {OK; busy,OK; busy,busy,OK; busy x3; refused; busy,refused} x confirmation behaviour, one request at a time",
        "random": [("random", {}, 2), ("samedest", {}, 1), ("soak", {}, 1)],
        "runs": 1200 if tier == "quick" else None,
        "budget_s": 60 if tier == "quick" else 900,
        "batch": 10,
        "sweep_batch": 2,
    }


def run_samedest(params, tape, detail=False):
    """2-4 consecutive unicasts to ONE destination (same or different TSN), each with its own scripted confirmation, while the NCP repeats the
    confirmation of an earlier request of the series (its tag, its APS frame) before the current request's own confirmation: a stale
    confirmation must never decide the current call."""
    V = params["V"] if "V" in params else VERSIONS[tape.draw(len(VERSIONS), "V")]
    rig = e3app.AppRig(tape, version=V, sched=params.get("sched", True))
    loop, ncp = rig.loop, rig.ncp
    ncp.preform()
    viol, probes, sigs = [], {}, set()

    def probe(n, k=1):
        probes[n] = probes.get(n, 0) + k

    D = 0x2345
    n = 2 + tape.draw(3, "n")
    same_tsn = tape.draw(3, "same_tsn") != 0
    reqs = []
    for i in range(n):
        conf = ("success", "success", "failure", "never")[tape.draw(4, "conf")]
        cdelay = (0.5, 2.0, 30.0)[tape.draw(3, "cdelay")]
        stale = []
        if i > 0 and tape.draw(4, "stale?"):
            stale = [(tape.draw(i, "stale.of"), ("OK", "OK", "DELIVERY_FAILED")[tape.draw(3, "stale.status")], (0.01, 0.1, 0.3)[tape.draw(3, "stale.delay")])]
            if tape.draw(3, "stale.twice") == 2:
                stale.append((tape.draw(i, "stale.of"), "OK", 0.2))
        reqs.append({"i": i, "conf": conf, "cdelay": cdelay, "stale": stale, "tag": None, "aps": None, "t_acc": None, "out": None, "t0": None, "t_end": None})
    cur = [None]

    def h_send(req, **kw):
        r = cur[0]
        if r is None:
            return type(ncp).h_sendUnicast(ncp, req, **kw)
        a = req.args
        aps = a["aps_frame"] if V >= 14 else a["apsFrame"]
        tag = int(a["message_tag"] if V >= 14 else a["messageTag"])
        r["tag"], r["aps"], r["t_acc"] = tag, aps, loop.time()
        if r["conf"] == "success":
            ncp._sent_cb(0, D, aps, tag, "OK", b"", r["cdelay"])
        elif r["conf"] == "failure":
            ncp._sent_cb(0, D, aps, tag, "DELIVERY_FAILED", b"", r["cdelay"])
        for (j, status, sdelay) in r["stale"]:
            e = reqs[j]
            if e["tag"] is not None:
                probe("confirm.stale_repeat")
                r["stale_fired"] = True
                ncp._sent_cb(0, D, e["aps"], e["tag"], status, b"", sdelay)
        return (St("OK"), int(aps.sequence))

    ncp.h_sendUnicast = h_send

    async def main():
        app = await rig.start_app()
        ncp.auto_confirm = False
        for r in reqs:
            cur[0] = r
            pkt = zt.ZigbeePacket(src=zt.AddrModeAddress(addr_mode=zt.AddrMode.NWK, address=0x0000), src_ep=1, dst_ep=1, tsn=0x55 if same_tsn else (0x55 + r["i"]) & 0xFF,
                                  profile_id=260, cluster_id=6, data=zt.SerializableBytes(b"series-" + bytes([r["i"]])), radius=0, non_member_radius=3,
                                  dst=zt.AddrModeAddress(addr_mode=zt.AddrMode.NWK, address=D))
            r["t0"] = loop.time()
            try:
                await app.send_packet(pkt)
                r["out"] = ("ok", None)
            except BaseException as e:  # noqa: BLE001
                r["out"] = ("raised", e)
            r["t_end"] = loop.time()
            r["pending_after"] = list(app._pending)
            await asyncio.sleep((0.0, 0.05, 1.0)[tape.draw(3, "gap")])
        cur[0] = None
        await asyncio.sleep(1.0)

    outcome, val = rig.run(main())
    if outcome != "done":
        viol.append(("C12.err", "sim-" + outcome, f"v{V}: simulation ended with {outcome}: {val!r}"))
    tags = [r["tag"] for r in reqs if r["tag"] is not None]
    for r in reqs:
        if r["out"] is None or r["t_acc"] is None:
            continue
        tag = f"v{V} series request {r['i']} to 0x{D:04X} (tag {r['tag']}, earlier tags {tags[:r['i']]}) own confirmation={r['conf']} after {r['cdelay']}s stale repeats={r['stale']}"
        kind, e = r["out"]
        t_own = r["t_acc"] + r["cdelay"]
        if r["pending_after"]:
            viol.append(("C12.clean", "entry-left", f"{tag}: pending table holds {r['pending_after']} after the call ended"))
        if r["conf"] == "success":
            if kind != "ok":
                viol.append(("C12.noother", "failed-by-stale-confirmation", f"{tag}: raised {e!r} although its own confirmation reported success"))
            elif r["t_end"] < t_own - 1e-6:
                viol.append(("C12.noother", "completed-by-stale-confirmation", f"{tag}: returned at t={r['t_end']:.4f}, before its own confirmation was even emitted (t={t_own:.4f})"))
        elif r["conf"] == "failure":
            if kind == "ok":
                viol.append(("C12.noother", "completed-by-stale-confirmation", f"{tag}: returned normally although its own confirmation reported failure"))
            elif not isinstance(e, zigpy.exceptions.DeliveryError):
                viol.append(("C12.err", "wrong-exception", f"{tag}: expected DeliveryError, got {e!r}"))
            elif r["t_end"] < t_own - 1e-6:
                viol.append(("C12.noother", "failed-by-stale-confirmation", f"{tag}: raised at t={r['t_end']:.4f}, before its own confirmation was emitted (t={t_own:.4f})"))
        else:
            if kind == "ok":
                viol.append(("C12.noother", "completed-by-stale-confirmation", f"{tag}: returned normally although no confirmation of its own was ever emitted"))
            elif not isinstance(e, asyncio.TimeoutError):
                viol.append(("C12.noother", "failed-by-stale-confirmation", f"{tag}: expected TimeoutError (no own confirmation), got {e!r}"))
        sigs.add(hashlib.blake2b(repr((V, same_tsn, r["conf"], r["cdelay"], r["stale"], kind, type(e).__name__)).encode(), digest_size=8).digest())
    probe("series_same_tsn" if same_tsn else "series_distinct_tsn")
    res = {"viol": viol, "faults": {k: v for k, v in probes.items() if k.startswith("confirm.")}, "probes": probes, "vt": loop.time(), "iters": loop.iters, "sigs": sigs,
           "evals": max(1, len(reqs)), "digest": hashlib.sha256(repr((rig.log[-300:], loop.time(), loop.iters)).encode()).hexdigest()[:16],
           "sample": {"V": V, "series": [(r["conf"], r["cdelay"], r["stale"], r["out"] and r["out"][0]) for r in reqs]}}
    if detail:
        res["trace"] = [repr(e) for e in rig.log[-200:]]
    return res


def run(scenario, params, tape, detail=False):
    if scenario == "soak":
        # the whole-stack soak (dst/soak.py): one application object through several connection epochs with traffic, failures and
        # reconnects; this check reports the clauses of its own property from it
        from .. import soak

        return soak.run(params, tape, detail=detail)
    if scenario == "samedest":
        return run_samedest(params, tape, detail)
    V = params["V"] if "V" in params else VERSIONS[tape.draw(len(VERSIONS), "V")]
    rig = e3app.AppRig(tape, version=V, sched=params.get("sched", True))
    loop, ncp = rig.loop, rig.ncp
    ncp.preform()
    viol, probes = [], {}
    sigs = set()
    nev = [0]
    samples = []

    def probe(n, k=1):
        probes[n] = probes.get(n, 0) + k

    reqs = {}  # owner key -> request record
    by_dest = {}
    by_eui = {}
    delivered = []  # (t, name, vals) frames handed to the host EZSP layer
    stream = []  # (t, command name, owner) as the NCP saw them
    workload = [False]

    def owner_of(req):
        a = req.args
        n = req.name
        if n in ("getExtendedTimeout", "setExtendedTimeout"):
            return by_eui.get(bytes(a["remoteEui64"].serialize()))
        if n == "lookupNodeIdByEui64":
            return by_eui.get(bytes(a["eui64"].serialize()))
        if n == "replaceAddressTableEntry":
            return by_eui.get(bytes(a["newEui64"].serialize()))
        if n == "setSourceRoute":
            return by_dest.get(int(a["destination"]))
        if n == "sendUnicast":
            return by_dest.get(int(a["nwk"] if V >= 14 else a["indexOrDestination"]))
        if n == "sendMulticast":
            return by_dest.get(("group", int((a["aps_frame"] if V >= 14 else a["apsFrame"]).groupId)))
        if n == "sendBroadcast":
            return by_dest.get(("bcast", int((a["aps_frame"] if V >= 14 else a["apsFrame"]).clusterId)))
        return None

    def on_request(req):
        if workload[0] and (req.name in SETUP or req.name in SENDS):
            stream.append((loop.time(), req.name, owner_of(req)))

    ncp.on_request = on_request
    ncp.h_getExtendedTimeout = lambda req, remoteEui64: (False,)
    ncp.h_lookupNodeIdByEui64 = lambda req, eui64: ((reqs[by_eui[bytes(eui64.serialize())]]["dest"] if reqs[by_eui[bytes(eui64.serialize())]]["in_table"] else 0xFFFF) if bytes(eui64.serialize()) in by_eui else 0xFFFF,)
    ncp.h_setSourceRoute = lambda req, **kw: (St("OK"),)

    def confirm(r, tag, aps, status, dest=None, delay=0.0):
        mtype = 0
        ncp._sent_cb(mtype, r["dest"] if dest is None else dest, aps, tag, status, b"", delay)

    def h_send(req, **kw):
        r = owner_of(req) if workload[0] else None
        if r is None or r not in reqs:
            # application start-up traffic
            if req.name == "sendUnicast":
                return type(ncp).h_sendUnicast(ncp, req, **kw)
            return (St("OK"), 0)
        r = reqs[r]
        a = req.args
        aps = a["aps_frame"] if V >= 14 else a["apsFrame"]
        tag = int(a["message_tag"] if V >= 14 else a["messageTag"])
        r["tags"].append(tag)
        k = len(r["attempts"])
        code = r["enq"][k] if k < len(r["enq"]) else "OK"
        status = "OK" if code == "OK" else (BUSY[(r["i"] + k) % 3] if code == "B" else REFUSE[(r["i"] + k) % 2])
        r["attempts"].append((loop.time(), status))
        if status != "OK" and code == "B" and k == 0 and r["conf"] == "early_in_backoff" and req.name == "sendUnicast":
            # the stack reports on this very (destination, tag) while the host is backing off after a busy answer (a late duplicate of an
            # earlier message's confirmation, an unsolicited one): it says nothing about whether THIS message will ever be accepted
            probe("confirm.own_tag_during_backoff")
            confirm(r, tag, aps, "OK", delay=0.2)
        if status == "OK" and req.name == "sendUnicast":
            c = r["conf"]
            r["accepted_tag"] = tag
            if c in ("success", "early_in_backoff"):
                confirm(r, tag, aps, "OK", delay=r["cdelay"])
            elif c == "failure":
                confirm(r, tag, aps, "DELIVERY_FAILED", delay=r["cdelay"])
            elif c == "duplicate":
                confirm(r, tag, aps, "OK", delay=r["cdelay"])
                confirm(r, tag, aps, "OK", delay=r["cdelay"] + 0.01)
                confirm(r, tag, aps, "DELIVERY_FAILED", delay=r["cdelay"] + 0.02)
            elif c == "wrong_tag":
                # (v14 carries a 16-bit tag in the confirmation: a tag that differs only in its high byte is another tag too)
                confirm(r, (tag + 0x0100) if (V >= 14 and r["i"] % 2 == 0) else (tag + 1) % 256, aps, "OK", delay=r["cdelay"])
            elif c == "wrong_dest":
                confirm(r, tag, aps, "OK", dest=r["dest"] ^ 0x4000, delay=r["cdelay"])
            elif c == "before_response":
                ncp.emit(ncp.encode_cb("messageSentHandler", _sent_vals(V, 0, r["dest"], aps, tag, "OK")), 0.0, "cb")
            elif c == "wrong_then_right":
                confirm(r, (tag + 7) % 256, aps, "DELIVERY_FAILED", delay=r["cdelay"])
                confirm(r, tag, aps, "OK", dest=r["dest"] ^ 0x4000, delay=r["cdelay"] + 0.01)
                confirm(r, tag, aps, "OK", delay=r["cdelay"] + 0.5)
            elif c == "late_119":
                confirm(r, tag, aps, "OK", delay=119.9)
            elif c == "late_121":
                confirm(r, tag, aps, "OK", delay=121.0)
        return (St(status), int(aps.sequence))

    ncp.h_sendUnicast = h_send
    ncp.h_sendMulticast = h_send
    ncp.h_sendBroadcast = h_send

    def make_packet(app, r):
        kind = r["kind"]
        kw = dict(src=zt.AddrModeAddress(addr_mode=zt.AddrMode.NWK, address=0x0000), src_ep=1, dst_ep=1, tsn=(0x30 + r["i"]) & 0xFF, profile_id=260,
                  cluster_id=0x0006 + r["i"], data=zt.SerializableBytes(b"payload-" + bytes([r["i"]])), radius=0, non_member_radius=3)
        if kind == "multicast":
            dst = zt.AddrModeAddress(addr_mode=zt.AddrMode.Group, address=r["dest"][1])
        elif kind == "broadcast":
            dst = zt.AddrModeAddress(addr_mode=zt.AddrMode.Broadcast, address=zt.BroadcastAddress.RX_ON_WHEN_IDLE)
            kw["cluster_id"] = r["dest"][1]
        elif kind == "ieee":
            dst = zt.AddrModeAddress(addr_mode=zt.AddrMode.IEEE, address=zt.EUI64.deserialize(r["eui"])[0])
        else:
            dst = zt.AddrModeAddress(addr_mode=zt.AddrMode.NWK, address=r["dest"])
        if kind == "route":
            kw["source_route"] = [0x1111, 0x2222]
        if kind == "exttimeout":
            kw["extended_timeout"] = True
        return zt.ZigbeePacket(dst=dst, **kw)

    def new_request(app, i, kind, enq, conf, cdelay, cancel_at=None):
        if kind == "multicast":
            dest = ("group", 0x3000 + i)
        elif kind == "broadcast":
            dest = ("bcast", 0x0500 + i)
        else:
            dest = 0x1000 + 0x111 * (i + 1)
        eui = bytes([0xA0 + i, 1, 2, 3, 4, 5, 6, 7])
        r = {"i": i, "kind": kind, "dest": dest, "eui": eui, "enq": enq, "conf": conf, "cdelay": cdelay, "attempts": [], "tags": [], "out": None, "t0": None,
             "t_end": None, "cancel_at": cancel_at, "in_table": bool(i % 2), "accepted_tag": None}
        reqs[i] = r
        by_dest[dest] = i
        if kind in ("plain", "route", "exttimeout", "ieee"):
            by_eui[eui] = i
            if kind in ("exttimeout", "ieee") or i % 3 == 0:
                app.add_device(zt.EUI64.deserialize(eui)[0], dest)
        probe("kind." + kind)
        return r

    async def call(app, r):
        r["t0"] = loop.time()
        try:
            await app.send_packet(make_packet(app, r))
            r["out"] = ("ok", None)
        except asyncio.CancelledError:
            r["out"] = ("cancelled", None)
            raise
        except BaseException as e:
            r["out"] = ("raised", e)
        finally:
            r["t_end"] = loop.time()
            r["pending_after"] = [k for k in app._pending if k[0] == (r["dest"] if not isinstance(r["dest"], tuple) else r["dest"])]

    def judge(app, r):
        nev[0] += 1
        tag = f"v{V} request {r['i']} {r['kind']} dest={r['dest']} enqueue={r['enq']} confirm={r['conf']}"
        out = r["out"]
        if out is None:
            viol.append(("C12.err", "pending", f"{tag}: send_packet never ended"))
            return
        if r.get("pending_after"):
            viol.append(("C12.clean", "entry-left", f"{tag}: pending table still holds {r['pending_after']} after the call ended ({out[0]})"))
        if out[0] == "cancelled":
            probe("cancelled")
            return
        unicast = r["kind"] in ("plain", "route", "exttimeout", "ieee")
        sts = [s for (_t, s) in r["attempts"]]
        # enqueue phase
        exp = None
        if not sts:
            exp = ("raised-any", None)
        else:
            accepted_at = None
            for k, (tt, s) in enumerate(r["attempts"]):
                if s == "OK":
                    accepted_at = tt
                    break
                if s not in BUSY:
                    exp = ("delivery-error", None)
                    probe("enqueue.refused")
                    break
            else:
                if exp is None and accepted_at is None and len(sts) >= 3:
                    exp = ("delivery-error", None)
                    probe("enqueue.busy_x3")
                elif exp is None and accepted_at is None:
                    # every attempt so far was answered 'busy' and the call ended (not by cancellation) before the fixed number of spaced
                    # attempts: a busy NCP is retried, not taken for a refusal (or for an acceptance)
                    viol.append(("C12.err", "gave-up-while-busy", f"{tag}: the NCP answered {sts} (busy) and the call ended with {out[0]} {out[1]!r} after {len(sts)} of the 3 spaced attempts"))
            if accepted_at is not None and len(sts) > 1:
                probe("enqueue.busy_then_ok")
            if exp is None and accepted_at is not None:
                if not unicast:
                    exp = ("ok", None)
                else:
                    # confirmations for (dest, accepted tag) actually delivered to the host
                    confs = []
                    for (tt, name, vals) in delivered:
                        if name != "messageSentHandler" or vals is None:
                            continue
                        if V >= 14:
                            st_, _mt, dst_, _aps, tg = vals[0], vals[1], vals[2], vals[3], vals[4]
                        else:
                            _mt, dst_, _aps, tg, st_ = vals[0], vals[1], vals[2], vals[3], vals[4]
                        if int(dst_) == r["dest"] and int(tg) == r["accepted_tag"] and tt >= r["t0"]:
                            confs.append((tt, int(st_)))
                    # response delivery time of the accepted attempt
                    t_enq = r.get("t_enq", accepted_at)
                    first = confs[0] if confs else None
                    if first is not None and first[0] <= t_enq + 120.0 - 1e-9:
                        ok = first[1] in (STATUS["OK"][0], STATUS["OK"][2])
                        exp = ("ok", max(first[0], t_enq)) if ok else ("delivery-error", max(first[0], t_enq))
                        probe("confirm.success" if ok else "confirm.failure")
                    elif first is not None and abs(first[0] - (t_enq + 120.0)) <= 1e-6:
                        exp = ("either", None)
                    else:
                        exp = ("timeout", t_enq + 120.0)
                        probe("timeout_120s")
        probe("confirm." + {"wrong_then_right": "wrong_tag", "late_119": "success", "late_121": "never"}.get(r["conf"], r["conf"])) if unicast and r["conf"] not in ("success", "failure") else None
        kind_out = out[0]
        e = out[1]
        if exp is None:
            return
        if exp[0] == "ok":
            if kind_out != "ok":
                viol.append(("C12.err" if unicast else "C12.ok", "failed-although-confirmed", f"{tag}: enqueue accepted and a success confirmation for its own (destination, tag) delivered, but the call raised {e!r}"))
            elif exp[1] is not None and abs(r["t_end"] - exp[1]) > 0.01:
                viol.append(("C12.ok", "when", f"{tag}: returned at t={r['t_end']:.4f}, own success confirmation/enqueue completed at t={exp[1]:.4f}"))
        elif exp[0] == "delivery-error":
            if kind_out == "ok":
                viol.append(("C12.ok", "returned-without-success", f"{tag}: returned normally; enqueue statuses {sts}, confirmation behaviour {r['conf']}"))
            elif not isinstance(e, zigpy.exceptions.DeliveryError):
                viol.append(("C12.err", "wrong-exception", f"{tag}: expected DeliveryError, got {e!r} (enqueue statuses {sts})"))
        elif exp[0] == "timeout":
            if kind_out == "ok":
                viol.append(("C12.ok", "returned-without-confirmation", f"{tag}: returned normally although no confirmation for its own (destination, tag) was delivered in time"))
            elif not isinstance(e, asyncio.TimeoutError):
                viol.append(("C12.err", "wrong-exception", f"{tag}: expected TimeoutError (no own confirmation), got {e!r}"))
            elif r["t_end"] > exp[1] + 1e-6 + 0.01:
                viol.append(("C12.err", "timeout-late", f"{tag}: TimeoutError at t={r['t_end']:.4f}, enqueue was accepted at t={exp[1] - 120.0:.4f}"))
        elif exp[0] == "raised-any" and kind_out == "ok":
            viol.append(("C12.ok", "returned-without-send", f"{tag}: returned normally although no send command reached the NCP"))
        # retry spacing
        ats = [tt for (tt, s) in r["attempts"]]
        for a, b, gap in zip(ats, ats[1:], (0.5, 1.0, 1.5)):
            if b - a < gap - 1e-6:
                viol.append(("C12.err", "retry-spacing", f"{tag}: attempts at {ats}: gap {b - a:.4f}s is shorter than the fixed {gap}s"))
        if len(ats) > 3:
            viol.append(("C12.err", "too-many-attempts", f"{tag}: {len(ats)} enqueue attempts"))
        sigs.add(hashlib.blake2b(repr((V, r["kind"], r["enq"], r["conf"], r["cancel_at"], kind_out, type(e).__name__)).encode(), digest_size=8).digest())
        if len(samples) < 3:
            samples.append({"V": V, "kind": r["kind"], "enqueue": list(r["enq"]), "statuses": sts, "confirm": r["conf"], "outcome": kind_out, "exception": type(e).__name__ if e else None,
                            "duration": round(r["t_end"] - r["t0"], 4)})

    async def main():
        app = await rig.start_app()
        ez = app._ezsp
        orig = ez.frame_received

        def frame_received(data):
            d = bytes(data)
            name, ok, _seq = decodes(V, d)
            vals = None
            if ok and name in ("messageSentHandler", "sendUnicast"):
                rx = ncp.cmds[name][2]
                body = d[3 if V < 5 else 5:]
                vals = []
                for ty in rx.values():
                    v, body = ty.deserialize(body)
                    vals.append(v)
            delivered.append((loop.time(), name, vals))
            if name == "sendUnicast" and workload[0]:
                # the enqueue response of the request whose attempt is the latest unanswered one
                for r in reqs.values():
                    if r["attempts"] and "t_enq" not in r and r["attempts"][-1][1] == "OK" and r["kind"] in ("plain", "route", "exttimeout", "ieee"):
                        r["t_enq"] = loop.time()
                        break
            return orig(data)

        ez.frame_received = frame_received
        ncp.auto_confirm = False
        workload[0] = True
        if scenario == "single":
            i = 0
            for conf in params["confs"]:
                if conf in ("failure", "never", "success") and params["kind"] == "plain":
                    # ... for the request that draws message tag 0 (zigpy's 8-bit sequence has just wrapped: the 256th send of the application's life)
                    app._send_sequence = 255
                    probe("message_tag_zero")
                r = new_request(app, i, params["kind"], ENQ_SCRIPTS[params["enq"]], conf, 0.05)
                t = loop.create_task(call(app, r))
                await asyncio.sleep(130.0)
                if not t.done():
                    t.cancel()
                    await asyncio.sleep(0.01)
                judge(app, r)
                i += 1
        else:
            n = 1 + tape.draw(8, "n")
            tasks = []
            tt = 0.0
            for i in range(n):
                kind = KINDS[(0, 0, 1, 2, 3, 4, 5, 1, 2)[tape.draw(9, "kind")]]
                enq = ENQ_SCRIPTS[(0, 0, 0, 1, 2, 3, 4, 5)[tape.draw(8, "enq")]]
                conf = CONFIRMS[(0, 0, 0, 1, 2, 3, 4, 5, 6, 7, 8, 9, 10)[tape.draw(13, "conf")]]
                cdelay = (0.001, 0.05, 0.6, 2.0, 30.0)[tape.draw(5, "cdelay")]
                cancel_at = (None, None, None, None, 0.0, 0.002, 0.01, 0.7, 5.0, 119.0)[tape.draw(10, "cancel")]
                r = new_request(app, i, kind, enq, conf, cdelay, cancel_at)
                tt += (0.0, 0.0, 0.001, 0.003, 0.2, 2.0)[tape.draw(6, "gap")]

                def start(r=r):
                    t = loop.create_task(call(app, r))
                    tasks.append(t)
                    if r["cancel_at"] is not None:
                        loop.external(loop.time() + r["cancel_at"], t.cancel, group=None)

                loop.external(loop.time() + tt, start, group=None)
            if tape.draw(3, "unsolicited") == 2:
                probe("confirm.unsolicited")
                import bellows.types as bt
                aps = bt.EmberApsFrame(profileId=260, clusterId=6, sourceEndpoint=1, destinationEndpoint=1, options=0, groupId=0, sequence=9)
                loop.external(loop.time() + 0.3, lambda: ncp._sent_cb(0, 0x1111, aps, tape.draw(256, "utag"), "OK"), group="ncp-app")
            await asyncio.sleep(tt + 140.0)
            for t in tasks:
                if not t.done():
                    t.cancel()
            await asyncio.sleep(0.01)
            if n > 1:
                probe("overlapping_requests")
            for r in reqs.values():
                judge(app, r)
        if len(app._pending):
            viol.append(("C12.clean", "table-not-empty", f"v{V}: pending table not empty at the end of the run: {list(app._pending)}"))

    outcome, val = rig.run(main())
    if outcome != "done":
        viol.append(("C12.err", "sim-" + outcome, f"v{V}: simulation ended with {outcome}: {val!r}"))
    # C12.atomic over the NCP-side command stream
    open_owner = None
    for (tt, name, owner) in stream:
        if open_owner is not None and owner != open_owner:
            ro = reqs.get(open_owner)
            if ro is not None and ro["t_end"] is not None and ro["t_end"] <= tt + 1e-9:
                open_owner = None  # that request ended (cancelled / failed) before sending: its block is closed
        if name in SETUP:
            probe("setup_commands_seen")
            if open_owner is not None and owner != open_owner:
                viol.append(("C12.atomic", "interleaved-setup", f"v{V}: set-up command {name} of request {owner} at t={tt:.4f} between the set-up and the send of request {open_owner}: {[(round(a, 4), b, c) for a, b, c in stream[:16]]}"))
                break
            open_owner = owner
        else:
            if open_owner is not None and owner != open_owner:
                viol.append(("C12.atomic", "interleaved-send", f"v{V}: send command {name} of request {owner} at t={tt:.4f} between the set-up and the send of request {open_owner}: {[(round(a, 4), b, c) for a, b, c in stream[:16]]}"))
                break
            open_owner = None
    # ... and per send attempt: a request that does set-up does it for EVERY enqueue attempt; a repeated attempt (after a busy answer and the
    # back-off, during which other requests ran their own set-up and send) that goes out without its set-up leaves the set-up and the send that
    # finally carries the message separated by other requests' set-up and send commands
    with_setup = {owner for (_tt, name, owner) in stream if name in SETUP}
    for i, (tt, name, owner) in enumerate(stream):
        if name in SETUP or owner not in with_setup or owner is None:
            continue
        first_setup = next(j for j, e in enumerate(stream) if e[2] == owner and e[1] in SETUP)
        if i < first_setup:
            continue
        prev = stream[i - 1] if i else None
        if prev is None or prev[2] != owner or prev[1] not in SETUP:
            between = [(round(a, 4), b, c) for a, b, c in stream[first_setup:i + 1]]
            if any(c != owner for _a, _b, c in between):
                viol.append(("C12.atomic", "send-attempt-without-its-setup", f"v{V}: send command {name} of request {owner} at t={tt:.4f} was not directly preceded by that request's own "
                             f"set-up; between its set-up and this send the NCP saw {between}"))
                break
            probe("send_attempt_without_repeated_setup")
    seen, uniq = set(), []
    for v in viol:
        if (v[0], v[1]) not in seen:
            seen.add((v[0], v[1]))
            uniq.append(v)
    res = {"viol": uniq, "faults": {k: v for k, v in probes.items() if k.startswith(("enqueue.", "confirm.")) and k != "confirm.success"}, "probes": probes, "vt": loop.time(),
           "iters": loop.iters, "sigs": sigs, "evals": max(1, nev[0]),
           "digest": hashlib.sha256(repr((rig.log[-300:], loop.time(), loop.iters)).encode()).hexdigest()[:16],
           "sample": samples[0] if samples else {"V": V, "requests": nev[0]}}
    if detail:
        res["trace"] = [repr(e) for e in rig.log[-200:]]
    return res


def _sent_vals(V, mtype, dest, aps, tag, status):
    if V >= 14:
        return {"status": St(status), "message_type": mtype, "nwk": dest, "aps_frame": aps, "message_tag": tag, "message": b""}
    return {"type": mtype, "indexOrDestination": dest, "apsFrame": aps, "messageTag": tag, "status": St(status), "messageContents": b""}
