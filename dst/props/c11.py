"""C11 - the reset handshake completes only on the NCP's software-reset RSTACK (real Gateway on real AshProtocol, scripted peer)."""
import asyncio
import hashlib

import bellows.uart as uart

from .. import compat, e2
from .. import refash as R

compat.quiet_logging()

ID = "C11"
LEVEL = "fault_enumeration"
ENGINE = "E2 ashpeer"
TECHNIQUE = ("deterministic simulation in virtual time: the real Gateway on the real AshProtocol against a scripted peer; complete "
             "enumeration of reply kind x code x arrival time x prior frame counters x connection-loss point, seeded schedules and request sequences beyond")
LEVEL_TEXT = ("the grid {RSTACK, ERROR} x all 256 codes x arrival {before the request, at once, mid-window, exactly at the 5 s deadline, "
              "after it, twice, never} x prior traffic leaving the host's (tx, rx) frame counters at every value 0..7 x both waiters is "
              "enumerated completely (thorough; quick thins the counter dimension), as is connection loss / EOF at every step of the "
              "handshake; seeded runs chain 1-3 requests with drawn replies, ties at the deadline and batched loop iterations")
COMPONENTS = {
    "real": ["bellows.uart.Gateway", "bellows.ash.AshProtocol (all of bellows/ash.py)"],
    "simulated": ["event loop + clock (dst.loop.SimLoop)", "serial transport (dst.line.SimTransport)",
                  "scripted ASH peer emitting frames from the independent encoder (dst.refash)", "application (recorder of enter_failed_state / connection_lost / frame_received)"],
}
RULE = ("sweep cells: (waiter, reply kind, code, arrival, prior counters, loss point) with a benign schedule, each event in its own loop iteration; "
        "random: 1-3 chained requests with replies, losses and same-instant orderings drawn from the tape. Non-trivial = the reply is not a single "
        "prompt RSTACK(software); distinct = distinct (cell, outcome, wire trace) digests.")
ASSUMPTIONS = [
    "an ERROR frame carrying the software-reset code 0x0B is not an error code a conforming NCP sends and is a don't-care",
    "a reply delivered at exactly the 5 s deadline may count as in time or as late (both orders of the two loop callbacks are legal)",
    "wait_for_startup_reset has no timeout of its own; the 1 s wait applied by EZSP.startup_reset is reproduced around it",
    "an InvalidStateError out of Gateway.connection_lost when the waiter was already completed in the same iteration belongs to C10.report, not C11",
]
PROBES = ["completed_by_software_rstack", "nonsoftware_rstack_during_reset", "error_during_reset", "timeout_exact", "tie_at_deadline",
          "rstack_before_request", "rstack_twice", "reply_duplicated_in_one_read", "reset_with_queued_send", "late_rstack_after_timeout", "loss_while_reset_pending", "loss_while_startup_pending",
          "eof_while_pending", "close_while_pending", "data_frame_unacknowledged_at_loss", "both_waiters_pending_at_loss", "data_frame_unacknowledged_when_handshake_completes", "nak_and_rstack_in_one_read", "transport_closed_underneath", "retry_after_timeout", "joined_existing_reset", "joined_reset_unanswered", "counters_nonzero_before", "sched.batch", "sched.reorder"]

SW = R.RESET_SOFTWARE
ARRIVALS = ("before", "now", "mid", "deadline", "after", "twice", "never", "double")
LOSS = (None, "before", "after_rst", "after_reply", "eof_after_rst", "close_after_rst", "tclose_after_rst")


class App:
    def __init__(self, loop):
        self.loop = loop
        self.failed = []  # (t, code)
        self.lost = []
        self.frames = []

    def enter_failed_state(self, code):
        self.failed.append((self.loop.time(), int(code)))

    def connection_lost(self, exc):
        self.lost.append((self.loop.time(), exc))

    def frame_received(self, data):
        self.frames.append((self.loop.time(), bytes(data)))


def plan(tier):
    sweeps = []
    counters = [(0, 0), (3, 5)] if tier == "quick" else [(a, b) for a in range(8) for b in (a, (a + 3) % 8)]
    for waiter in ("reset", "startup"):
        for kind in ("rstack", "error"):
            for arrival in ARRIVALS:
                for cnt in counters:
                    sweeps.append(("codes", {"waiter": waiter, "kind": kind, "arrival": arrival, "tx": cnt[0], "rx": cnt[1], "sched": False}))
        for loss in LOSS[1:]:
            for arrival in ("now", "never"):
                for cnt in counters[:2]:
                    sweeps.append(("cell", {"waiter": waiter, "kind": "rstack", "code": SW, "arrival": arrival, "tx": cnt[0], "rx": cnt[1], "loss": loss, "sched": False}))
                    # the same with a host DATA frame still unacknowledged when the connection goes away
                    sweeps.append(("cell", {"waiter": waiter, "kind": "rstack", "code": SW, "arrival": arrival, "tx": cnt[0], "rx": cnt[1], "loss": loss, "sched": False, "inflight": True}))
    for loss in ("after_rst", "eof_after_rst", "close_after_rst", "tclose_after_rst"):
        for order in ("startup-first", "reset-first"):
            sweeps.append(("both", {"loss": loss, "order": order, "sched": False}))
    for tx in (range(8) if tier == "thorough" else (0, 3, 7)):
        for when in ("before-rst", "after-rst"):
            sweeps.append(("stale", {"tx": tx, "rx": (tx * 5) % 8, "when": when, "sched": False}))
            # ... the NCP had rejected that frame (NAK) just before it restarted: NAK and RSTACK arrive in one read
            sweeps.append(("stale", {"tx": tx, "rx": (tx * 5) % 8, "when": when, "sched": False, "nak": True}))
    for seqs in (("never", "now"), ("never", "never"), ("after", "now"), ("now", "now")):
        sweeps.append(("chain", {"arrivals": list(seqs), "sched": False}))
    sweeps.append(("join", {"sched": False}))
    sweeps.append(("join", {"sched": False, "never": True}))
    for tx in range(8):
        # (ACK and RSTACK in ONE read: with two reads the queued send may legitimately go out, still in the old numbering, between them)
        sweeps.append(("queued", {"tx": tx, "rx": (tx * 3) % 8, "together": True, "sched": False}))
    return {
        "sweeps": sweeps,
        "exhaustive": "waiter {reset, startup} x reply {RSTACK, ERROR} x all 256 codes x arrival {before, at once, mid-window, exactly at the deadline, after, twice, twice in one read, never} x prior (tx, rx) counters, and connection loss/EOF at each step, benign schedule",
        "random": [("random", {}, 1)],
        "runs": 4000 if tier == "quick" else None,
        "budget_s": 45 if tier == "quick" else 900,
        "batch": 100,
        "sweep_batch": 4,
    }


class Cell:
    """One Gateway on one AshProtocol with a scripted peer."""

    def __init__(self, tape, sched):
        self.rig = rig = e2.ScriptRig(tape, sched=sched)
        self.loop = rig.loop
        self.app = App(self.loop)
        self.done_fut = self.loop.create_future()
        self.gw = uart.Gateway(self.app, None, self.done_fut)
        self.gw.connection_made(rig.proto)
        rig.proto._ezsp_protocol = self.gw
        orig = self.gw.reset_received

        def reset_received(code):
            what = rig.mon.on_reset_received(code)
            rig.upper.notes.append((self.loop.time(), int(code), what))
            return orig(code)

        self.gw.reset_received = reset_received
        self.auto_rstack = True
        self.auto_ack = True
        self.rst_writes = []
        self.peer_frm = 0
        rig.on_frame = self._on_frame
        rig.payloads = None
        rig.mon.payload_ok = None

    def _on_frame(self, fr):
        if fr[0] == "rst":
            self.rst_writes.append(self.loop.time())
            if self.auto_rstack:
                self.peer_frm = 0
                self.rig.peer_send(R.f_rstack(SW), delay=0.001)
        elif fr[0] == "data" and self.auto_ack:
            self.rig.peer_send(R.f_ack((fr[1] + 1) % 8), delay=0.001)

    async def prior(self, tx, rx):
        await self.gw.reset()
        for i in range(tx):
            await self.gw.send_data(b"h" + bytes([i]))
        for j in range(rx):
            self.rig.peer_send(R.f_data(self.peer_frm, 0, tx % 8, b"n" + bytes([j])), delay=0.001)
            self.peer_frm = (self.peer_frm + 1) % 8
        await asyncio.sleep(0.5)
        self.auto_rstack = False


async def request(cell, waiter, res):
    loop = cell.loop
    res["t_req"] = loop.time()
    res["writes_before"] = len(cell.rig.mon.tx_frames)
    try:
        if waiter == "reset":
            r = await cell.gw.reset()
        else:
            async with asyncio.timeout(1.0):
                r = await cell.gw.wait_for_startup_reset()
        res["outcome"] = ("ok", r, loop.time())
    except asyncio.CancelledError:
        res["outcome"] = ("cancelled", None, loop.time())
        raise
    except BaseException as e:
        res["outcome"] = ("raised", e, loop.time())


def judge(cell, waiter, res, replies, loss_at, viol, probe, tag):
    """replies: [(t_delivered, kind, code)] scheduled by the scenario (delivery instants)."""
    t_req = res["t_req"]
    limit = t_req + (5.0 if waiter == "reset" else 1.0)
    out = res.get("outcome")
    mon = cell.rig.mon
    if out is None:
        viol.append(("C11.timeout", "pending", f"{tag}: the {waiter} waiter neither returned nor raised"))
        return
    kind, val, t_end = out
    # what was written for the request
    w = [fr for (t, fr) in mon.tx_frames[res["writes_before"]:] if abs(t - t_req) <= 1e-9 and fr[0] not in ("ack", "nak")]
    raw = [d for (t, f, d) in cell.writes if abs(t - t_req) <= 1e-9 and (f is None or f[0] not in ("ack", "nak"))]
    if waiter == "reset" and not res.get("joined"):
        if raw != [bytes([R.CAN]) + R.wire(R.f_rst())]:
            viol.append(("C11.rst", "bytes", f"{tag}: reset() wrote {[d.hex() for d in raw]} (expected exactly 1ac038bc7e)"))
    elif waiter == "startup" and raw:
        viol.append(("C11.rst", "startup-wrote", f"{tag}: wait_for_startup_reset wrote {[d.hex() for d in raw]}"))
    lost_t = loss_at
    sw = sorted(t for (t, k, c) in replies if k == "rstack" and c == SW and t >= t_req - 1e-12 and (lost_t is None or t < lost_t))
    in_time = [t for t in sw if t < limit - 1e-9]
    at_tie = [t for t in sw if abs(t - limit) <= 1e-9]
    if lost_t is not None and lost_t < limit + 1e-9 and not [t for t in sw if t < lost_t - 1e-9] and lost_t >= t_req - 1e-9:
        # the connection was lost while the waiter was pending
        exp_exc = res.get("loss_exc")
        if kind != "raised" or (val is not exp_exc and not (abs(lost_t - limit) <= 1e-9 and isinstance(val, TimeoutError))):
            viol.append(("C11.release", "not-released", f"{tag}: connection lost at t={lost_t:.4f} while the {waiter} waiter was pending; outcome {kind} {val!r} at t={t_end:.4f}"))
        elif abs(t_end - lost_t) > 1e-9 and not isinstance(val, TimeoutError):
            viol.append(("C11.release", "late", f"{tag}: waiter released at t={t_end:.4f}, connection lost at t={lost_t:.4f}"))
        return
    if in_time:
        probe("completed_by_software_rstack")
        if kind != "ok" or abs(t_end - in_time[0]) > 1e-9:
            viol.append(("C11.only", "not-completed", f"{tag}: RSTACK(software) delivered at t={in_time[0]:.4f} (request t={t_req:.4f}) but outcome is {kind} {val!r} at t={t_end:.4f}"))
    elif at_tie:
        probe("tie_at_deadline")
        if not ((kind == "ok" and abs(t_end - limit) <= 1e-9) or (kind == "raised" and isinstance(val, TimeoutError) and abs(t_end - limit) <= 1e-9)):
            viol.append(("C11.timeout", "tie", f"{tag}: reply exactly at the deadline t={limit:.4f}; outcome {kind} {val!r} at t={t_end:.4f}"))
    else:
        if kind == "ok":
            viol.append(("C11.only", "completed-without-software-rstack", f"{tag}: the {waiter} waiter returned at t={t_end:.4f} although no RSTACK(software) was delivered after the request (replies {replies})"))
        elif not isinstance(val, TimeoutError) or abs(t_end - limit) > 1e-9:
            viol.append(("C11.timeout", "when", f"{tag}: expected TimeoutError at t={limit:.4f}, got {kind} {val!r} at t={t_end:.4f}"))
        else:
            probe("timeout_exact")


def run(scenario, params, tape, detail=False):
    if scenario == "codes":
        # all 256 codes in one spec to keep process overhead low
        agg = None
        sigs = set()
        n = 0
        for code in range(256):
            if params["kind"] == "error" and code == SW:
                continue  # not an error code; don't-care (see ASSUMPTIONS)
            r = run_cell(dict(params, code=code), tape, detail)
            n += 1
            sigs.add(r["sig"])
            if agg is None:
                agg = r
            else:
                agg["viol"].extend(r["viol"])
                for k, v in r["probes"].items():
                    agg["probes"][k] = agg["probes"].get(k, 0) + v
                for k, v in r["faults"].items():
                    agg["faults"][k] = agg["faults"].get(k, 0) + v
                agg["vt"] += r["vt"]
                agg["iters"] += r["iters"]
        agg["evals"] = n
        agg["sigs"] = sigs
        agg.pop("sig", None)
        return agg
    if scenario == "cell":
        return run_cell(params, tape, detail)
    if scenario == "queued":
        return run_queued(params, tape, detail)
    if scenario == "both":
        return run_both(params, tape, detail)
    if scenario == "stale":
        return run_stale(params, tape, detail)
    return run_chain(scenario, params, tape, detail)


def _finish(cell, viol, probes, desc, nontrivial, detail, sample):
    rig = cell.rig
    for k, v in rig.mon.probes.items():
        probes[k] = probes.get(k, 0) + v
    for k, v in rig.loop.sched_probes.items():
        if v:
            probes["sched." + k] = v
    viol.extend(v for v in rig.mon.viol if not v[0].startswith("C05.fail"))
    sig = hashlib.blake2b(repr((desc, [(round(t, 4), f[0]) for t, f in rig.mon.tx_frames[:40]])).encode(), digest_size=8).digest()
    res = {"viol": viol, "faults": {}, "probes": probes, "vt": rig.loop.time(), "iters": rig.loop.iters, "sig": sig, "nontrivial": nontrivial,
           "digest": hashlib.sha256(repr((rig.log, desc)).encode()).hexdigest()[:16], "sample": sample}
    if detail:
        res["trace"] = [repr(e) for e in rig.log[:300]]
    return res


def _wrap_writes(cell):
    cell.writes = []
    orig = cell.rig._host_write

    def hw(data):
        try:
            fr = R.decode_one_write(data)[1]
        except ValueError:
            fr = None
        cell.writes.append((cell.loop.time(), fr, bytes(data)))
        return orig(data)

    cell.rig.transport.on_write = hw


def run_cell(params, tape, detail=False):
    waiter, kind, code, arrival = params["waiter"], params["kind"], params["code"], params["arrival"]
    tx, rx, loss = params.get("tx", 0), params.get("rx", 0), params.get("loss")
    cell = Cell(tape, params.get("sched", True))
    _wrap_writes(cell)
    loop, rig, app = cell.loop, cell.rig, cell.app
    viol, probes = [], {}

    def probe(n):
        probes[n] = probes.get(n, 0) + 1

    res = {}
    replies = []
    st = {}
    exc = ConnectionResetError("simulated loss")
    res["loss_exc"] = exc
    limit_len = 5.0 if waiter == "reset" else 1.0

    def frame(k, c):
        return R.f_rstack(c) if k == "rstack" else R.f_error(c)

    def schedule(t_abs, k, c, copies=1):
        for _ in range(copies):
            replies.append((t_abs, k, c))
        if copies == 1:
            rig.peer_send_at(frame(k, c), t_abs)
        else:  # the line duplicated the frame: both copies arrive in one read
            loop.external(t_abs, rig.peer_send_bytes, R.wire(frame(k, c)) * copies, 0.0, group="peer-emit")

    async def main():
        await cell.prior(tx, rx)
        if tx or rx:
            probe("counters_nonzero_before")
        t0 = loop.time() + 1.0  # the request instant
        offs = {"before": [-0.05], "now": [0.001], "mid": [limit_len / 2], "deadline": [limit_len], "after": [limit_len + 0.5],
                "twice": [0.001, 0.3], "never": [], "double": [0.001]}[arrival]
        for o in offs:
            schedule(t0 + o, kind, code, 2 if arrival == "double" else 1)
        loss_at = None
        if loss == "before":
            loss_at = t0 - 0.01
        elif loss in ("after_rst", "eof_after_rst", "close_after_rst", "tclose_after_rst"):
            loss_at = t0 + 0.0005
        elif loss == "after_reply":
            loss_at = t0 + 0.002
        st["loss_at"] = loss_at
        if params.get("inflight"):
            # a host DATA frame that nobody acknowledges is outstanding when the request is made and when the connection goes away
            probe("data_frame_unacknowledged_at_loss")
            cell.auto_ack = False
            loop.external(t0 - 0.02, lambda: st.__setitem__("inflight", loop.create_task(cell.gw.send_data(b"inflight"))), group=None)
        if loss_at is not None:
            if loss == "eof_after_rst":
                loop.external(loss_at, rig.transport.inject_eof, group="n2h")
            elif loss == "tclose_after_rst":
                # the transport is closed underneath the stack (by whoever else holds it; transport.abort()): the transport contract then
                # delivers connection_lost(None) although neither Gateway.close() nor AshProtocol.close() ran
                probe("transport_closed_underneath")
                loop.external(loss_at, rig.transport.close, group="n2h")
            elif loss == "close_after_rst":
                # an orderly close from the host side (Gateway.close() by a concurrent disconnect): connection_lost(None)
                loop.external(loss_at, cell.gw.close, group="n2h")
            else:
                loop.external(loss_at, rig.transport.inject_lost, exc, group="n2h")
        await asyncio.sleep(t0 - loop.time())
        task = loop.create_task(request(cell, waiter, res))
        await asyncio.sleep(limit_len + 2.0)
        st["task_done"] = task.done()
        if not task.done():
            task.cancel()
        if st.get("inflight") is not None and not st["inflight"].done():
            st["inflight"].cancel()
        # C11.zero: numbering after a completed handshake
        out = res.get("outcome")
        if out is not None and out[0] == "ok" and loss_at is None:
            cell.auto_rstack = False
            n0 = len(rig.mon.data_tx)
            send = loop.create_task(cell.gw.send_data(b"after"))
            rig.peer_send(R.f_data(0, 0, 1, b"ncp0"), delay=0.05)
            await asyncio.sleep(1.0)
            st["zero_tx"] = [fr for (t, fr) in rig.mon.tx_frames if fr[0] == "data"][n0:n0 + 1]
            st["zero_rx"] = [p for (t, p) in app.frames if p == b"ncp0"]
            st["zero_send_done"] = send.done() and send.exception() is None if send.done() else False

    outcome, val = rig.run(main())
    tag = f"{waiter} {kind}({code}) {arrival} tx={tx} rx={rx} loss={loss}"
    if outcome != "done":
        viol.append(("C11.timeout", "sim-" + outcome, f"{tag}: simulation ended with {outcome}: {val!r}"))
    elif "t_req" in res:
        loss_at = st.get("loss_at")
        if loss in ("eof_after_rst", "close_after_rst", "tclose_after_rst"):
            # Gateway.eof_received / connection_lost(None) make a ConnectionResetError of their own
            o = res.get("outcome")
            if o is not None and o[0] == "raised" and isinstance(o[1], ConnectionResetError):
                res["loss_exc"] = o[1]
            probe("eof_while_pending" if loss == "eof_after_rst" else "close_while_pending")
        if loss_at is not None and loss_at >= res["t_req"]:
            probe("loss_while_reset_pending" if waiter == "reset" else "loss_while_startup_pending")
        if loss == "before":
            # the transport is gone before the request: reset() cannot write; anything but a hang is acceptable
            if res.get("outcome") is None:
                viol.append(("C11.release", "hang-after-loss", f"{tag}: request issued after the connection was lost never ended"))
        else:
            judge(cell, waiter, res, replies, loss_at, viol, probe, tag)
        # failure reports: every non-software RSTACK and every ERROR delivered while connected
        for (t, k, c) in replies:
            if loss_at is not None and t >= loss_at:
                continue
            expect_fail = (k == "rstack" and c != SW) or (k == "error" and c != SW)
            got = [x for x in app.failed if abs(x[0] - t) <= 1e-9 and x[1] == c]
            ncopies = len([r for r in replies if r == (t, k, c)])
            if expect_fail and len(got) != ncopies:
                viol.append(("C11.only", "failure-not-reported", f"{tag}: {k}({c}) delivered at t={t:.4f} but enter_failed_state({c}) was called {len(got)} times (calls {app.failed})"))
            if expect_fail:
                probe("nonsoftware_rstack_during_reset" if k == "rstack" else "error_during_reset")
            if not expect_fail and k == "rstack" and [x for x in app.failed if abs(x[0] - t) <= 1e-9]:
                viol.append(("C11.only", "software-rstack-reported-as-failure", f"{tag}: RSTACK(software) at t={t:.4f} led to enter_failed_state"))
        if arrival == "before":
            probe("rstack_before_request")
        if arrival in ("twice", "double"):
            probe("rstack_twice" if arrival == "twice" else "reply_duplicated_in_one_read")
        if arrival == "after":
            probe("late_rstack_after_timeout")
        if "zero_tx" in st:
            z = st["zero_tx"]
            if not z or z[0][1] != 0 or z[0][3] != 0:
                viol.append(("C11.zero", "host-numbering", f"{tag}: first DATA frame after the handshake is {z} (expected frmNum 0, ackNum 0)"))
            if len(st["zero_rx"]) != 1:
                viol.append(("C11.zero", "ncp-frame-0", f"{tag}: the NCP's DATA frame 0 after the handshake was handed up {len(st['zero_rx'])} times"))
        if loss_at is not None and loss != "before" and outcome == "done":
            if loss == "eof_after_rst":
                ok = len(app.lost) == 1 and isinstance(app.lost[0][1], ConnectionResetError)
            elif loss in ("close_after_rst", "tclose_after_rst"):
                ok = not app.lost  # a deliberate close is not reported to the application
            else:
                ok = len(app.lost) == 1 and app.lost[0][1] is exc
            if not ok and not rig.loop.exceptions:
                viol.append(("C11.release", "application-not-told", f"{tag}: application.connection_lost calls: {app.lost}"))
    nontrivial = not (kind == "rstack" and code == SW and arrival == "now" and loss is None)
    o = res.get("outcome")
    desc = (waiter, kind, code, arrival, tx, rx, loss, o and o[0], o and type(o[1]).__name__)
    return _finish(cell, viol, probes, desc, nontrivial, detail,
                   {"cell": tag, "outcome": (o[0], repr(o[1]), round(o[2], 4)) if o else None, "failed_calls": app.failed[:4],
                    "t_req": res.get("t_req"), "replies": replies})


def run_queued(params, tape, detail=False):
    """A send is in flight and another is already queued behind it when reset() is issued; the ACK for the first and the RSTACK arrive in one
    read. The queued send is the first frame of the new session: it must be numbered 0 (C11.zero)."""
    tx = params["tx"]
    cell = Cell(tape, params.get("sched", True))
    loop, rig = cell.loop, cell.rig
    viol, probes = [], {"reset_with_queued_send": 1}
    res, st = {}, {}

    async def main():
        await cell.prior(tx, params.get("rx", 0))
        cell.auto_ack = False
        s1 = loop.create_task(cell.gw.send_data(b"q1"))
        await asyncio.sleep(0.01)
        s2 = loop.create_task(cell.gw.send_data(b"q2"))
        await asyncio.sleep(0.01)
        rt = loop.create_task(request(cell, "reset", res))
        await asyncio.sleep(0.01)
        st["t_rstack"] = loop.time() + 0.001
        together = params.get("together", True)
        if together:
            rig.peer_send_bytes(R.wire(R.f_ack((tx + 1) % 8)) + R.wire(R.f_rstack(SW)), delay=0.001)
        else:
            rig.peer_send(R.f_ack((tx + 1) % 8), delay=0.001)
            rig.peer_send(R.f_rstack(SW), delay=0.001)
        cell.auto_ack = True
        await asyncio.sleep(4.0)
        st["s"] = [(t_.done() and not t_.cancelled() and t_.exception() is None) for t_ in (s1, s2)]
        for t_ in (s1, s2, rt):
            if not t_.done():
                t_.cancel()

    outcome, val = rig.run(main())
    tag = f"reset with a queued send, prior tx={tx}, ACK and RSTACK {'in one read' if params.get('together', True) else 'in two reads'}"
    if outcome != "done":
        viol.append(("C11.timeout", "sim-" + outcome, f"{tag}: simulation ended with {outcome}: {val!r}"))
    else:
        o = res.get("outcome")
        if o is None or o[0] != "ok":
            viol.append(("C11.only", "not-completed", f"{tag}: reset() ended {o and o[0]} {o and o[1]!r} although RSTACK(software) was delivered"))
        after = [fr for (t_, fr) in rig.mon.tx_frames if fr[0] == "data" and t_ >= st["t_rstack"] - 1e-9 and not fr[2]]
        if after and (after[0][1] != 0 or after[0][3] != 0):
            viol.append(("C11.zero", "queued-send-numbering", f"{tag}: the first new DATA frame after the handshake is {after[0][:4]} (expected frmNum 0, ackNum 0)"))
        if not after:
            probes["queued_send_not_written"] = 1
    desc = ("queued", tx, params.get("together", True), st.get("s"))
    return _finish(cell, viol, probes, desc, True, detail, {"cell": tag, "sends_completed": st.get("s")})


def run_stale(params, tape, detail=False):
    """A host DATA frame is unacknowledged when the reset handshake completes (it was written just before the RST and the NCP reset before
    answering, or it was written between the RST and the RSTACK by a concurrent caller - a keep-alive, say). The handshake completes on the
    RSTACK(software); from then on the host direction restarts at frame number zero: nothing numbered in the old session goes out any more."""
    tx, when = params["tx"], params["when"]
    cell = Cell(tape, params.get("sched", True))
    loop, rig = cell.loop, cell.rig
    viol, probes = [], {"data_frame_unacknowledged_when_handshake_completes": 1}
    res, st = {}, {}

    async def main():
        await cell.prior(tx, params.get("rx", 0))
        cell.auto_ack = False
        cell.auto_rstack = False
        if when == "before-rst":
            s1 = loop.create_task(cell.gw.send_data(b"old-session"))
            await asyncio.sleep(0.01)
            rt = loop.create_task(request(cell, "reset", res))
        else:
            rt = loop.create_task(request(cell, "reset", res))
            await asyncio.sleep(0.0005)
            s1 = loop.create_task(cell.gw.send_data(b"old-session"))
        await asyncio.sleep(0.02)
        st["t_rstack"] = loop.time() + 0.001
        cell.peer_frm = 0
        if params.get("nak"):
            probes["nak_and_rstack_in_one_read"] = 1
            rig.peer_send_bytes(R.wire(R.f_nak(tx % 8)) + R.wire(R.f_rstack(SW)), delay=0.001)
        else:
            rig.peer_send(R.f_rstack(SW), delay=0.001)
        await asyncio.sleep(0.1)
        # the new session: the NCP (freshly reset) acknowledges what is in sequence for it and answers anything else the way UG101 says
        expect = [0]

        def on_frame(fr):
            if fr[0] != "data":
                return
            if fr[1] == expect[0]:
                expect[0] = (expect[0] + 1) % 8
                rig.peer_send(R.f_ack(expect[0]), delay=0.001)
            elif fr[2]:
                rig.peer_send(R.f_ack(expect[0]), delay=0.001)
            else:
                rig.peer_send(R.f_nak(expect[0]), delay=0.001)

        rig.on_frame = on_frame
        s2 = loop.create_task(cell.gw.send_data(b"new-session"))
        await asyncio.sleep(25.0)
        st["s1"] = ("pending" if not s1.done() else "cancelled" if s1.cancelled() else "raised" if s1.exception() is not None else "ok")
        st["s2"] = ("pending" if not s2.done() else "cancelled" if s2.cancelled() else repr(s2.exception()) if s2.exception() is not None else "ok")
        for t_ in (s1, s2, rt):
            if not t_.done():
                t_.cancel()
        await asyncio.sleep(0.01)

    outcome, val = rig.run(main())
    tag = f"DATA frame {tx} unacknowledged when the handshake completes (written {when}{', NAK and RSTACK in one read' if params.get('nak') else ''})"
    if outcome != "done":
        viol.append(("C11.timeout", "sim-" + outcome, f"{tag}: simulation ended with {outcome}: {val!r}"))
    else:
        o = res.get("outcome")
        if o is None or o[0] != "ok":
            viol.append(("C11.only", "not-completed", f"{tag}: reset() ended {o and o[0]} {o and o[1]!r} although RSTACK(software) was delivered"))
        else:
            after = [(round(t_, 4), fr[1], fr[2], fr[4]) for (t_, fr) in rig.mon.tx_frames if fr[0] == "data" and t_ >= st["t_rstack"] + 1e-9]
            stale = [a for a in after if a[3] == b"old-session"]
            if stale:
                viol.append(("C11.zero", "old-session-frame-after-handshake", f"{tag}: the handshake completed at t={st['t_rstack']:.4f}; afterwards the host wrote "
                             f"{len(stale)} DATA frame(s) of the OLD session {[(a[0], 'frm %d' % a[1], 'reTx' if a[2] else 'first') for a in stale[:5]]} "
                             f"(the freshly reset NCP can never acknowledge them: the send of the new session ended '{st.get('s2')}', failure notifications {rig.upper.notes[-2:]})"))
            new = [a for a in after if a[3] == b"new-session" and not a[2]]
            if new and new[0][1] != 0:
                viol.append(("C11.zero", "host-numbering", f"{tag}: first DATA frame of the new session numbered {new[0][1]}"))
            if st.get("s2") != "ok" and not stale:
                viol.append(("C11.zero", "new-session-send-failed", f"{tag}: the first send of the new session ended {st.get('s2')}"))
    desc = ("stale", tx, when, st.get("s1"), st.get("s2"))
    return _finish(cell, viol, probes, desc, True, detail, {"cell": tag, "old_send": st.get("s1"), "new_send": st.get("s2")})


def run_both(params, tape, detail=False):
    """A start-up-reset waiter AND a reset() request are pending on one Gateway when the connection goes away: EVERY pending waiter is released."""
    loss, order = params["loss"], params["order"]
    cell = Cell(tape, params.get("sched", True))
    _wrap_writes(cell)
    loop, rig, app = cell.loop, cell.rig, cell.app
    viol, probes = [], {"both_waiters_pending_at_loss": 1}
    exc = ConnectionResetError("simulated loss")
    out = {}

    async def waiter(name, coro):
        try:
            r = await coro
            out[name] = ("ok", r, loop.time())
        except asyncio.CancelledError:
            out[name] = ("cancelled", None, loop.time())
            raise
        except BaseException as e:  # noqa: BLE001
            out[name] = ("raised", e, loop.time())

    st = {}

    async def main():
        await cell.prior(2, 3)
        t0 = loop.time() + 1.0
        st["loss_at"] = t0 + 0.5
        await asyncio.sleep(t0 - loop.time())
        first, second = ("startup", "reset") if order == "startup-first" else ("reset", "startup")
        mk = {"startup": cell.gw.wait_for_startup_reset, "reset": cell.gw.reset}
        ta = loop.create_task(waiter(first, mk[first]()))
        await asyncio.sleep(0.1)
        tb = loop.create_task(waiter(second, mk[second]()))
        fn = {"after_rst": lambda: rig.transport.inject_lost(exc), "eof_after_rst": rig.transport.inject_eof, "close_after_rst": cell.gw.close,
              "tclose_after_rst": rig.transport.close}[loss]
        loop.external(st["loss_at"], fn, group="n2h")
        await asyncio.sleep(8.0)
        for t_ in (ta, tb):
            if not t_.done():
                t_.cancel()
        await asyncio.sleep(0.01)

    outcome, val = rig.run(main())
    tag = f"both waiters pending ({order}), loss={loss}"
    if outcome != "done":
        viol.append(("C11.release", "sim-" + outcome, f"{tag}: simulation ended with {outcome}: {val!r}"))
    else:
        for name in ("startup", "reset"):
            o = out.get(name)
            good = o is not None and o[0] == "raised" and isinstance(o[1], ConnectionError) and abs(o[2] - st["loss_at"]) <= 0.01 and (loss != "after_rst" or o[1] is exc)
            if not good:
                viol.append(("C11.release", "not-released-both", f"{tag}: connection lost at t={st['loss_at']:.4f}; the {name} waiter ended {o and o[0]} {o and o[1]!r}"
                             f"{(' at t=%.4f' % o[2]) if o else ''} (the other one: {out.get('reset' if name == 'startup' else 'startup')})"))
    desc = ("both", loss, order, [(k, v[0], type(v[1]).__name__) for k, v in sorted(out.items())])
    return _finish(cell, viol, probes, desc, True, detail, {"cell": tag, "outcomes": {k: (v[0], repr(v[1])) for k, v in out.items()}})


def run_chain(scenario, params, tape, detail=False):
    """1-3 chained requests (retry after a timeout, late RSTACK between requests, joined concurrent reset, random replies and losses)."""
    cell = Cell(tape, params.get("sched", True))
    _wrap_writes(cell)
    loop, rig, app = cell.loop, cell.rig, cell.app
    viol, probes = [], {}

    def probe(n):
        probes[n] = probes.get(n, 0) + 1

    exc = ConnectionResetError("simulated loss")
    results = []
    descs = []
    all_replies = []  # a late reply to an earlier request legitimately answers a later one

    async def main():
        if scenario == "random":
            tx, rx = tape.draw(8, "tx"), tape.draw(8, "rx")
        else:
            tx = rx = 0
        await cell.prior(tx, rx)
        if scenario == "join":
            # two concurrent reset() calls: one RST, both complete on the RSTACK
            t0 = loop.time() + 0.5
            await asyncio.sleep(0.5)
            r1, r2 = {"loss_exc": exc}, {"loss_exc": exc, "joined": True}
            a = loop.create_task(request(cell, "reset", r1))
            await asyncio.sleep(0.2)
            b = loop.create_task(request(cell, "reset", r2))
            if params.get("never"):
                # no RSTACK at all: BOTH requests raise a timeout when the reset timeout (of the request that wrote the RST) has passed
                await asyncio.sleep(7.0)
                probe("joined_reset_unanswered")
                for nm, rr in (("first", r1), ("second (joined the first)", r2)):
                    o = rr.get("outcome")
                    if o is None or o[0] != "raised" or not isinstance(o[1], TimeoutError) or abs(o[2] - (r1["t_req"] + 5.0)) > 1e-6:
                        viol.append(("C11.timeout", "joined-request", f"two concurrent reset() calls, no RSTACK: the {nm} request ended {o and o[0]} "
                                     f"{o and type(o[1]).__name__} at t={o and round(o[2], 4)} (expected TimeoutError at t={r1['t_req'] + 5.0:.4f})"))
                descs.append(("join-never", [rr.get("outcome") and type(rr["outcome"][1]).__name__ for rr in (r1, r2)]))
                return
            t_rep = loop.time() + 0.3
            rig.peer_send(R.f_rstack(SW), at=t_rep)
            await asyncio.sleep(6.0)
            probe("joined_existing_reset")
            judge(cell, "reset", r1, [(t_rep, "rstack", SW)], None, viol, probe, "join/first")
            o2 = r2.get("outcome")
            if o2 is None or o2[0] != "ok" or abs(o2[2] - t_rep) > 1e-9:
                viol.append(("C11.only", "joined-waiter", f"second concurrent reset() did not complete with the first: {o2}"))
            if len([t for t in cell.rst_writes if t >= t0 - 1e-9]) != 1:
                viol.append(("C11.rst", "joined-rst-count", f"two concurrent resets wrote RST {len([t for t in cell.rst_writes if t >= t0 - 1e-9])} times"))
            descs.append(("join", o2 and o2[0]))
            return
        arrivals = params.get("arrivals")
        n = len(arrivals) if arrivals else 1 + tape.draw(3, "nreq")
        lost = False
        for i in range(n):
            if lost:
                break
            waiter = "reset" if arrivals or i > 0 or tape.draw(3, "waiter") else "startup"
            limit_len = 5.0 if waiter == "reset" else 1.0
            arr = arrivals[i] if arrivals else ARRIVALS[tape.draw(len(ARRIVALS), "arrival")]
            if arrivals:
                kind, code = "rstack", SW
            else:
                kind = "rstack" if tape.draw(4, "kind") else "error"
                code = (SW, SW, SW, 0x02, 0x03, 0x00, 0x51, 0x80, 0x0A, 0xFF)[tape.draw(10, "code")]
                if kind == "error" and code == SW:
                    code = 0x51
            t0 = loop.time() + 0.5
            offs = {"before": [-0.05], "now": [0.001], "mid": [limit_len / 2], "deadline": [limit_len], "after": [limit_len + 0.5],
                    "twice": [0.001, 0.3], "never": [], "double": [0.001]}[arr]
            replies = [(t0 + o, kind, code) for o in offs] * (2 if arr == "double" else 1)
            if kind != "rstack" or code != SW:
                # a genuine answer as well, sometimes
                if not arrivals and tape.draw(2, "then_sw"):
                    tt = t0 + (0.5, 2.0, 4.0, limit_len)[tape.draw(4, "then_at")]
                    replies.append((tt, "rstack", SW))
            replies.sort(key=lambda r: r[0])  # the pipe is FIFO: hand frames over in time order
            if arr == "double":
                fr0 = R.f_rstack(code) if kind == "rstack" else R.f_error(code)
                loop.external(replies[0][0], rig.peer_send_bytes, R.wire(fr0) * 2, 0.0, group="peer-emit")
                later = replies[2:]
            else:
                later = replies
            for (tt, k, c) in later:
                rig.peer_send_at(R.f_rstack(c) if k == "rstack" else R.f_error(c), tt)
            loss_at = None
            if not arrivals and tape.draw(6, "loss?") == 5:
                loss_at = t0 + (0.0005, 0.002, 0.3, limit_len, limit_len + 0.1)[tape.draw(5, "loss_at")]
                grp = None if tape.draw(2, "lossgrp") else "n2h"
                lk = tape.draw(4, "losskind")  # 0 read error, 1 EOF, 2 orderly close from the host side, 3 transport closed underneath
                if tape.draw(3, "inflight") == 2:
                    probe("data_frame_unacknowledged_at_loss")
                    cell.auto_ack = False
                    loop.external(t0 - 0.02, lambda: loop.create_task(cell.gw.send_data(b"inflight")), group=None)
                if lk == 3:
                    probe("transport_closed_underneath")
                    loop.external(loss_at, rig.transport.close, group=grp)
                elif lk == 0:
                    loop.external(loss_at, rig.transport.inject_lost, exc, group=grp)
                elif lk == 1:
                    loop.external(loss_at, rig.transport.inject_eof, group=grp)
                else:
                    loop.external(loss_at, cell.gw.close, group=grp)
                own_exc = lk != 0
                lost = True
            await asyncio.sleep(t0 - loop.time())
            res = {"loss_exc": exc, "own_exc": loss_at is not None and own_exc}
            task = loop.create_task(request(cell, waiter, res))
            await asyncio.sleep(limit_len + 1.0)
            if i > 0 and results and results[-1][1].get("outcome", ("",))[0] == "raised":
                probe("retry_after_timeout")
            all_replies.extend(replies)
            results.append((waiter, res, all_replies, loss_at, arr, kind, code))
            if not task.done():
                task.cancel()

    outcome, val = rig.run(main())
    if outcome != "done":
        viol.append(("C11.timeout", "sim-" + outcome, f"chain: simulation ended with {outcome}: {val!r}"))
    for i, (waiter, res, replies, loss_at, arr, kind, code) in enumerate(results):
        tag = f"chain[{i}] {waiter} {kind}({code}) {arr} loss_at={loss_at}"
        if "t_req" not in res:
            continue
        if loss_at is not None and abs(loss_at - (res["t_req"] + (5.0 if waiter == "reset" else 1.0))) <= 1e-9:
            # loss exactly at the deadline: either the timeout or the connection error may win
            o = res.get("outcome")
            if o is None:
                viol.append(("C11.release", "pending", f"{tag}: waiter still pending"))
            continue
        o = res.get("outcome")
        if res.get("own_exc") and o is not None and o[0] == "raised" and isinstance(o[1], ConnectionResetError):
            res["loss_exc"] = o[1]  # EOF / orderly close: the Gateway makes the connection error itself
        judge(cell, waiter, res, replies, loss_at, viol, probe, tag)
        descs.append((waiter, kind, code, arr, loss_at is not None, o and o[0], o and type(o[1]).__name__))
    losses = [r[3] for r in results if r[3] is not None]
    gl = min(losses) if losses else None
    for (t, k, c) in sorted(set(all_replies)):
        if gl is not None and t >= gl - 1e-9:
            continue
        if (k == "rstack" and c != SW) or (k == "error" and c != SW):
            got = [x for x in app.failed if abs(x[0] - t) <= 1e-9 and x[1] == c]
            if len(got) != all_replies.count((t, k, c)):
                viol.append(("C11.only", "failure-not-reported", f"chain: {k}({c}) delivered at t={t:.4f}: enter_failed_state called {len(got)} times"))
    if rig.loop.exceptions:
        probes["connection_lost_raised"] = len(rig.loop.exceptions)
    return _finish(cell, viol, probes, tuple(descs), True, detail, {"chain": [list(map(str, d)) for d in descs]})
