"""Simulated serial line: asyncio-transport look-alike + FIFO pipes + per-frame faults."""
from __future__ import annotations

import collections

from . import refash as R

LATENCIES = (0.001, 0.002, 0.005, 0.02)
STALLS = (0.5, 1.7, 3.5, 7.0)
FAULT_KINDS = ("drop", "corrupt", "dup", "stall")
LATE_DUP_MAX_AGE = 1.0  # seconds between a frame and its late duplicate
RATES = (0, 8, 16, 32, 64)  # out of 256 per frame: 0, 1/32, 1/16, 1/8, 1/4


class Pipe:
    """One direction of the line: an explicit FIFO with a single pump timer."""

    def __init__(self, loop, name: str, sink=None, group=None):
        self.loop = loop
        self.name = name
        self.sink = sink
        self.group = group if group is not None else name
        self.q = collections.deque()
        self.busy = False
        self.last = 0.0
        self.closed = False
        self.coalesce = None  # callable() -> bool: merge the next due chunk into this read (a serial driver hands over whatever has arrived)
        self.coalesced = 0

    def put(self, item, latency: float = 0.0):
        """item: bytes (delivered to sink) or a zero-argument callable (special event)."""
        t = self.loop.time() + latency
        if t < self.last:
            t = self.last
        self.last = t
        self.q.append((t, item))
        if not self.busy:
            self._arm()

    def _arm(self):
        if self.q:
            self.busy = True
            self._timer = self.loop.external(self.q[0][0], self._fire, group=self.group)
        else:
            self.busy = False
            self._timer = None

    def _fire(self):
        if not self.q:  # cleared while the pump timer was armed
            self.busy = False
            return
        _t, item = self.q.popleft()
        if self.coalesce is not None and not callable(item):
            now = self.loop.time()
            # (a read stays below half the host's receive buffer: residue of one frame + one read never reaches the 1 KB bound of C02's quantifier)
            while self.q and self.q[0][0] <= now and not callable(self.q[0][1]) and len(item) + len(self.q[0][1]) <= 512 and self.coalesce():
                item = item + self.q.popleft()[1]
                self.coalesced += 1
        try:
            if not self.closed:
                if callable(item):
                    item()
                else:
                    self.sink(item)
        finally:
            self._arm()

    def clear(self):
        """Everything in flight is gone (the peer died / the line was cut): later bytes travel on an empty line."""
        self.q.clear()
        self.last = self.loop.time()
        if getattr(self, "_timer", None) is not None:
            self._timer.cancel()  # the pump was waiting for the head of the old queue (possibly a stalled frame, seconds away)
            self._timer = None
        self.busy = False


class SimTransport:
    """What the code under test sees as its asyncio transport."""

    def __init__(self, loop, on_write, log=None):
        self.loop = loop
        self.on_write = on_write
        self.protocol = None
        self._closing = False
        self.lost_called = False
        self.writes_after_close = 0
        self.raised = []  # exceptions escaping protocol.data_received
        self.log = log
        # a real transport may keep a reference to what write() was given until it has drained: the caller must not touch the object again
        self._kept = []  # (object, snapshot at write time) for mutable arguments
        self.on_mutated = None  # callable(snapshot, now) when a buffer handed to write() was changed afterwards

    # --- transport API used by bellows
    def write(self, data):
        self.check_kept()
        if self._closing:
            self.writes_after_close += 1
            return
        if not isinstance(data, bytes):
            self._kept = self._kept[-7:] + [(data, bytes(data))]
        self.on_write(bytes(data))

    def check_kept(self):
        for obj, snap in self._kept:
            now = bytes(obj)
            if now != snap:
                self._kept = [(o, s_) for (o, s_) in self._kept if o is not obj]
                if self.on_mutated is not None:
                    self.on_mutated(snap, now)

    def is_closing(self):
        return self._closing

    def close(self):
        if self._closing:
            return
        self._closing = True
        self.loop.call_soon(self._call_connection_lost, None)

    abort = close

    def get_extra_info(self, name, default=None):
        return default

    @property
    def serial(self):  # some callers poke at transport.serial
        return None

    # --- simulator side
    def attach(self, protocol):
        self.protocol = protocol
        protocol.connection_made(self)

    def _call_connection_lost(self, exc):
        if self.lost_called:
            return
        self.lost_called = True
        if self.log is not None:
            self.log.append((self.loop.time(), "connection_lost", repr(exc)))
        self.protocol.connection_lost(exc)

    def feed(self, data: bytes):
        """Reader event: bytes arrived."""
        if self._closing:
            return
        try:
            self.protocol.data_received(data)
        except Exception as exc:  # what _SelectorSocketTransport._fatal_error does
            self.raised.append(exc)
            if self.log is not None:
                self.log.append((self.loop.time(), "data_received_raised", type(exc).__name__))
            if getattr(self, "swallow_protocol_errors", False):
                # what the serial transports (pyserial-asyncio and descendants) do: the exception ends up in the loop's exception handler,
                # the port stays open and reading goes on
                self.loop.call_exception_handler({"message": "protocol.data_received() call failed", "exception": exc, "transport": self})
                return
            self._force_close(exc)

    def _force_close(self, exc):
        if not self._closing:
            self._closing = True
        self.loop.call_soon(self._call_connection_lost, exc)

    def inject_eof(self):
        """Reader event: the peer closed its side."""
        if self._closing:
            return
        if self.log is not None:
            self.log.append((self.loop.time(), "eof"))
        keep_open = self.protocol.eof_received()
        if not keep_open:
            self.close()

    def inject_lost(self, exc):
        """Reader event: the read failed (serial unplugged, socket reset)."""
        if self._closing and self.lost_called:
            return
        self._force_close(exc)


class FaultPlan:
    """Per-run swarm configuration of line faults; every decision is a tape draw."""

    def __init__(self, tape, enabled=True, rates=None):
        self.tape = tape
        self.on = enabled
        self.fired = collections.Counter()
        self.rates = rates or {}
        self.total = {d: sum(w.values()) for d, w in self.rates.items()}

    @classmethod
    def swarm(cls, tape, directions=("h2n", "n2h")):
        rates = {}
        for d in directions:
            rate = RATES[tape.draw(len(RATES), "swarm.rate")]
            kinds = [k for k in FAULT_KINDS if tape.draw(2, "swarm.kind")]
            w = {}
            if rate and kinds:
                share = max(1, rate // len(kinds))
                for k in kinds:
                    w[k] = max(1, share // 3) if k == "stall" else share
            rates[d] = w
        return cls(tape, True, rates)

    def decide(self, direction: str) -> str:
        w = self.rates.get(direction)
        if not self.on or not w:
            return "deliver"
        opts = [(256 - self.total[direction], "deliver")] + [(v, k) for k, v in w.items()]
        kind = self.tape.weighted(opts, "fault." + direction)
        return kind

    def stop(self):
        self.on = False


class Line:
    """Frames in, faults applied, bytes out through the two pipes."""

    def __init__(self, loop, tape, plan: FaultPlan, log=None, chunking=True, nodup_kinds=()):
        self.nodup_kinds = nodup_kinds
        self.ties = True
        self.tie_latencies = 0
        self.loop = loop
        self.tape = tape
        self.plan = plan
        self.log = log
        self.chunking = chunking
        self.h2n = Pipe(loop, "h2n")
        self.n2h = Pipe(loop, "n2h")
        if chunking:
            # reads may also span frame boundaries: chunks that are due at the same instant can be handed over as one read
            self.h2n.coalesce = self.n2h.coalesce = lambda: tape.draw(2, "coalesce") == 1
        self.trace = []  # abstract: (dir, frame kind, fault)
        # late duplicates: a copy of a frame that turns up again after one or two later frames of the same direction (a glitching adapter
        # re-sending an old buffer), at most LATE_DUP_MAX_AGE later and never across a reset; bounded well below the 3-bit number space, FIFO otherwise intact
        self.late = {"h2n": [], "n2h": []}  # [remaining later frames, bytes]
        self.late_dups = True

    def _latency(self) -> float:
        """Small latencies mostly; sometimes one that makes the arrival coincide
        exactly with a pending deadline of the system (a boundary tie, which the
        scheduler's order/batch draws then resolve)."""
        c = self.tape.draw(10, "lat")
        if c < 4:
            return LATENCIES[c]
        if c < 6:
            return (0.2, 0.8)[c - 4]
        if not self.ties:
            return LATENCIES[c % 4]
        now = self.loop.time()
        whens = sorted({e[0] for e in self.loop._heap if not e[2]._cancelled and now < e[0] <= now + 12.0})
        if not whens:
            return LATENCIES[0]
        w = whens[self.tape.draw(min(4, len(whens)), "lat.tie")]
        self.tie_latencies += 1
        return w - now

    def send(self, direction: str, prefix: bytes, raw: bytes | None, intact: bytes, kind: str):
        """raw: unstuffed frame with CRC (None when the bytes did not parse as one frame)."""
        pipe = self.h2n if direction == "h2n" else self.n2h
        tape = self.tape
        fault = self.plan.decide(direction)
        if fault == "corrupt" and raw is None:
            fault = "deliver"
        if fault == "dup" and kind in self.nodup_kinds:
            fault = "deliver"
        self.plan.fired[direction + "." + fault] += 1
        self.trace.append((direction, kind, fault))
        if self.log is not None:
            self.log.append((self.loop.time(), "line", direction, kind, fault, intact.hex()))
        if fault == "drop":
            return
        data = intact
        if fault == "corrupt":
            nbits = len(raw) * 8
            n = 1 + tape.draw(2, "flip.n")
            b1 = tape.draw(nbits, "flip.bit")
            bits = {b1}
            if n == 2:  # a second, different bit (never a loop on the tape: a replayed tape answers 0 past its end)
                b2 = tape.draw(nbits - 1, "flip.bit2")
                bits.add(b2 + 1 if b2 >= b1 else b2)
            data = prefix + R.wire_raw(R.flip_bits(raw, bits))
        elif fault == "dup":
            late = tape.draw(3, "dup.late") if self.late_dups else 0
            if late:
                self.late[direction].append([late, intact, self.loop.time()])
                self.plan.fired[direction + ".dup_late"] += 1
            else:
                data = intact + intact
        lat = self._latency()
        if fault == "stall":
            lat += STALLS[tape.draw(len(STALLS), "stall")]
        parts = [data]
        if self.chunking and len(data) > 1:
            c = tape.draw(6, "chunk")
            if c == 3:
                cut = 1 + tape.draw(len(data) - 1, "cut")
                parts = [data[:cut], data[cut:]]
            elif c == 4 and len(data) > 2:
                a = 1 + tape.draw(len(data) - 1, "cut")
                b = 1 + tape.draw(len(data) - 1, "cut")
                a, b = min(a, b), max(a, b)
                parts = [p for p in (data[:a], data[a:b], data[b:]) if p]
            elif c == 5:
                parts = [data[i:i + 1] for i in range(len(data))]
        first = True
        for p in parts:
            pipe.put(p, lat if first else 0.0)
            first = False
        if kind in ("rst", "rstack"):
            # a reset starts a new numbering epoch: a copy of a frame of the old one would be indistinguishable from a new frame
            self.late["h2n"].clear()
            self.late["n2h"].clear()
        if self.late[direction]:
            due = []
            for ent in self.late[direction]:
                if ent[1] is not intact or fault != "dup":
                    ent[0] -= 1
                    if ent[0] <= 0:
                        due.append(ent)
            for ent in due:
                self.late[direction].remove(ent)
                if self.loop.time() - ent[2] > LATE_DUP_MAX_AGE:
                    continue  # too old: such a copy is not what 'duplicate' means (and the 3-bit numbers could have wrapped)
                if self.log is not None:
                    self.log.append((self.loop.time(), "line", direction, "late-duplicate", ent[1].hex()))
                pipe.put(ent[1], 0.0)
