"""Online wire monitor for the host side of an ASH link.

Attached to every engine that runs the real AshProtocol.  It sees
  * every byte string the host passes to transport.write()      (on_host_write)
  * every chunk about to be delivered to the host               (on_host_read)
  * upward notifications of the real protocol                   (on_reset_received)
and checks, with the independent codec in refash:

  C03.tx      layout of every written frame (prefix, stuffing, CRC, control byte,
              payload is a submitted one, re-encoding reproduces the bytes)
              ackNum of every DATA frame = next frame number the host expects at that
              moment according to the reference receiver (also on repeats)
  C05.window  at most one unacknowledged DATA frame; consecutive numbers;
              restart at 0 after RSTACK           (also reported as C01.noabandon)
  C05.same    same frmNum/payload on every repeat; reTx clear first, set after
  C05.budget  at most ACK_TIMEOUTS transmissions per frame
  C05.when    repeat at the instant of a NAK or after a gap within [0.4, 3.2]
  C05.fail    no DATA between a failure notification and the next RSTACK;
              every failure notification is explained by an ERROR frame or an
              exhausted budget
"""
from __future__ import annotations

from . import refash as R

ACK_TIMEOUTS = 5
T_MIN, T_MAX = 0.4, 3.2
EPS = 1e-9


class WireMonitor:
    def __init__(self, loop, payload_ok=None, log=None):
        self.loop = loop
        self.payload_ok = payload_ok  # callable(payload)->bool, None = do not check
        self.log = log
        self.viol = []  # (clause, key, text)
        self.rdec = R.Decoder()  # decodes what the host is about to read
        # host transmit state as seen on the wire
        self.outstanding = None  # [frm, payload, tx_count, last_tx_time]
        self.last_covered = None  # (frm, payload, tx_count, time)
        self.next_frm = 0
        self.failed = False
        self.nak_at = None
        self.reset_since = False
        self.failed_prev = None
        self.error_at = None  # time an intact ERROR frame was handed to the host
        self.error_unclaimed = 0
        self.rstack_pending = 0
        self.fail_notifications = 0
        self.rstack_notifications = 0
        self.tx_frames = []  # (time, frame tuple) every frame the host wrote
        self.rx_frames = []  # (time, frame tuple) every intact frame handed to the host
        self.data_tx = []  # (time, frm, retx, payload)
        self.probes = {}
        self.first_write = None
        # receive-path differential (opt-in, engines whose transport stays open): the specification-derived host receiver
        # is fed the same bytes; deliveries, reset notifications caused by frames, and the ACK/NAK numbers written must agree
        self.rxdiff = False
        self.acknum_check = True
        self.rxmodel = R.HostReceiverModel()
        self.host_wr = []  # ('ack'|'nak', n) in write order
        self.host_up = []  # ('up', payload) | ('reset', code) caused by received frames
        self._rx_reported = False

    def _v(self, clause, key, text):
        self.viol.append((clause, key, text))
        if clause == "C05.window":
            self.viol.append(("C01.noabandon", key, text))

    def _probe(self, name):
        self.probes[name] = self.probes.get(name, 0) + 1

    # --------------------------------------------------------------- host writes
    def on_host_write(self, data: bytes):
        now = self.loop.time()
        try:
            ncan, fr, raw = R.decode_one_write(data)
        except ValueError as e:
            self._v("C03.tx", "layout", f"host wrote bytes that are not one well-formed frame ({e}): {data.hex()}")
            return None
        if self.first_write is None:
            self.first_write = (ncan, fr)
        kind = fr[0]
        if kind not in ("data", "ack", "nak", "rst"):
            self._v("C03.tx", "class", f"host wrote a {kind} frame: {data.hex()}")
        if kind in ("ack", "nak") and fr[3]:
            self._v("C03.tx", "reserved-bit", f"reserved bit set in {kind}: {data.hex()}")
        if kind in ("ack", "nak") and len(raw) != 3:
            self._v("C03.tx", "length", f"{kind} frame with a data field: {data.hex()}")
        if R.reencode(fr) != data[ncan:]:
            self._v("C03.tx", "reencode", f"independent encoder gives {R.reencode(fr).hex()} for {fr}, host wrote {data[ncan:].hex()}")
        self.tx_frames.append((now, fr))
        if kind in ("ack", "nak"):
            self.host_wr.append((kind, fr[1]))
        if kind == "data":
            self._on_data_tx(now, fr, data)
        return fr

    def _on_data_tx(self, now, fr, data):
        _, frm, retx, ack, payload = fr
        self.data_tx.append((now, frm, retx, payload))
        if self.acknum_check and ack != self.rxmodel.rx:
            # the ackNum field is the number of the next frame the sender expects, at the time of THIS transmission (a repeat is re-encoded,
            # not replayed): a conforming peer discards a frame whose ackNum lies behind what it has already been acknowledged
            self._v("C03.tx", "acknum", f"DATA frame {frm} (reTx={retx}) written at t={now:.6f} carries ackNum {ack}; the host has accepted frames up to {self.rxmodel.rx} (exclusive)")
        if retx:
            self._probe("retx_written")
        if self.payload_ok is not None and not self.payload_ok(payload):
            self._v("C03.tx", "payload", f"DATA frame carries a payload nobody submitted: {payload.hex()}")
        if self.failed:
            self._v("C05.fail", "data-while-failed", f"DATA frame {frm} written at t={now:.6f} after a failure and before any RSTACK")
        o = self.outstanding
        if o is None:
            lc = self.last_covered
            if retx and lc is not None and lc[0] == frm and lc[1] == payload and abs(lc[3] - now) <= EPS:
                # ACK and timeout processed in the same iteration: counted as a timeout
                self._probe("retx_after_cover_same_instant")
                self.outstanding = [frm, payload, lc[2] + 1, now]
                if lc[2] + 1 > ACK_TIMEOUTS:
                    self._v("C05.budget", "attempts", f"frame {frm} transmitted {lc[2] + 1} times")
                return
            if frm != self.next_frm:
                self._v("C05.window", "numbering", f"new DATA frame numbered {frm}, expected {self.next_frm} (t={now:.6f})")
            if retx:
                self._v("C05.same", "retx-first", f"reTx set on the first transmission of frame {frm} (t={now:.6f})")
                self._v("C03.tx", "retx-bit", f"control byte of the first transmission of DATA frame {frm} has the reTx bit set (t={now:.6f})")
            self.outstanding = [frm, payload, 1, now]
            self.next_frm = (frm + 1) % 8
            return
        if self.reset_since and frm == 0 and not retx:
            # an RSTACK arrived while frame o[0] was outstanding: numbering restarted (a first transmission numbered 0 is the first frame of
            # the new session, also when the abandoned frame happened to be number 0 itself; a repeat of that one would carry reTx)
            self._probe("new_frame_after_rstack_midsend")
            self.reset_since = False
            self.outstanding = [frm, payload, 1, now]
            self.next_frm = 1
            return
        if frm != o[0]:
            self._v("C05.window", "second-outstanding", f"DATA frame {frm} written while frame {o[0]} is unacknowledged (t={now:.6f})")
            self.outstanding = [frm, payload, 1, now]
            self.next_frm = (frm + 1) % 8
            return
        # a repeat
        if payload != o[1]:
            self._v("C05.same", "payload", f"repeat of frame {frm} carries a different payload")
        if not retx:
            self._v("C05.same", "retx-repeat", f"reTx clear on transmission {o[2] + 1} of frame {frm} (t={now:.6f})")
            self._v("C03.tx", "retx-bit", f"control byte of transmission {o[2] + 1} of DATA frame {frm} has the reTx bit clear (t={now:.6f})")
        o[2] += 1
        if o[2] > ACK_TIMEOUTS:
            self._v("C05.budget", "attempts", f"frame {frm} transmitted {o[2]} times")
        gap = now - o[3]
        if self.nak_at is not None and abs(self.nak_at - now) <= EPS:
            self._probe("repeat_on_nak")
        elif T_MIN - EPS <= gap <= T_MAX + EPS:
            self._probe("repeat_on_timeout")
        else:
            self._v("C05.when", "gap", f"repeat of frame {frm} after {gap:.6f}s with no NAK at that instant (t={now:.6f})")
        o[3] = now

    # ---------------------------------------------------------------- host reads
    def on_host_read(self, chunk: bytes):
        """Call just before the chunk is handed to the host protocol."""
        now = self.loop.time()
        frames = self.rdec.feed(chunk)
        self.rxmodel.feed(chunk)  # always: its expected number is the oracle for the ackNum of host DATA frames
        for fr in frames:
            k = fr[0]
            if k == "bad":
                continue
            self.rx_frames.append((now, fr))
            if k in ("data", "ack", "nak"):
                ack = fr[3] if k == "data" else fr[1]
                o = self.outstanding
                covers = o is not None and ack == (o[0] + 1) % 8
                if covers:
                    self.last_covered = (o[0], o[1], o[2], now)
                    self.outstanding = None
                    self.reset_since = False
                if k == "nak" and not covers:
                    self.nak_at = now
            elif k == "rstack":
                self.rstack_pending += 1
                # a frame still outstanding may be repeated (same number, reTx) or abandoned for a new frame 0
                self.reset_since = self.outstanding is not None
                self.last_covered = None
                self.next_frm = 0
                self.failed = False
            elif k == "error":
                self.error_at = now
                self.error_unclaimed += 1
        return frames

    def on_host_deliver(self, payload: bytes):
        """The real protocol handed a DATA payload to its upper layer."""
        self.host_up.append(("up", bytes(payload)))

    def rx_check(self, where=""):
        """Call after each read was handed to the host: everything the reference receiver produced for the bytes so far
        must have been produced by the real one (answered before any later event is processed), and nothing else."""
        if not self.rxdiff or self._rx_reported:
            return
        m = self.rxmodel
        if self.host_up != m.up:
            self._rx_reported = True
            n = next((i for i, (a, b) in enumerate(zip(self.host_up, m.up)) if a != b), min(len(self.host_up), len(m.up)))
            text = (f"upward deliveries / reset notifications diverge from the reference receiver at event {n} (t={self.loop.time():.6f}{where}): "
                    f"real {self.host_up[n:n + 3]} reference {m.up[n:n + 3]}")
            self._v("C04.iff", "link-deliveries", text)
            self._v("C02.equiv", "link-deliveries", text)
        elif self.host_wr != m.wr:
            self._rx_reported = True
            n = next((i for i, (a, b) in enumerate(zip(self.host_wr, m.wr)) if a != b), min(len(self.host_wr), len(m.wr)))
            text = (f"ACK/NAK frames written diverge from the reference receiver at answer {n} (t={self.loop.time():.6f}{where}): "
                    f"real {self.host_wr[n:n + 3]} reference {m.wr[n:n + 3]}")
            self._v("C04.answer", "link-answers", text)
            self._v("C02.equiv", "link-answers", text)

    def on_reset_received(self, code):
        """The real protocol called upper.reset_received(code)."""
        now = self.loop.time()
        if self.rstack_pending:
            self.rstack_pending -= 1
            self.rstack_notifications += 1
            self.host_up.append(("reset", int(code)))
            return "rstack"
        self.fail_notifications += 1
        o = self.outstanding
        if self.error_unclaimed and self.error_at is not None and abs(self.error_at - now) <= EPS:
            self.error_unclaimed -= 1
            self.host_up.append(("reset", int(code)))
            self._probe("fail_by_error_frame")
        elif o is not None and o[2] >= ACK_TIMEOUTS:
            self._probe("fail_by_budget")
            o[2] = -10**6  # claimed
        elif (o is None and self.last_covered is not None and self.last_covered[2] >= ACK_TIMEOUTS
              and abs(self.last_covered[3] - now) <= EPS):
            # the covering ACK and the last timeout were processed in one iteration: counted as a timeout
            self._probe("fail_after_cover_same_instant")
            self.last_covered = None
        elif (o is None and self.failed_prev is not None and self.failed_prev[2] >= ACK_TIMEOUTS
              and abs(self.failed_prev[3] - now) <= EPS):
            # ERROR frame and the last ACK timeout in the same iteration: two events, one notification each
            self._probe("fail_by_budget_and_error_same_instant")
            self.failed_prev = None
        else:
            self._v("C05.fail", "spurious-notification", f"failure notification ({int(code)}) at t={now:.6f} explained neither by an ERROR frame nor by an exhausted budget")
        self.failed = True
        if o is not None and o[2] > 0:
            self.failed_prev = (o[0], o[1], o[2], now)
        self.outstanding = None
        return "failure"
