"""Engine E3 'stack': real AshProtocol + Gateway + EZSP (+ application) over the
simulated line, against the reference NCP (refash.NcpEndpoint + ncpmodel.Ncp)."""
from __future__ import annotations

import asyncio

import bellows.ash as ash
import bellows.ezsp
import bellows.ezsp.protocol as ezsp_protocol
import bellows.uart
import zigpy.serial

from . import compat
from . import refash as R
from .ashmon import WireMonitor
from .line import FaultPlan, Line, SimTransport
from .loop import SimLoop, TimeShim, run_sim
from .ncpmodel import Ncp

COMPONENTS = {
    "real": ["bellows.ash.AshProtocol", "bellows.uart.Gateway + _connect (use_thread=False: ThreadsafeProxy same-loop path)",
             "bellows.ezsp.EZSP", "bellows.ezsp.v4..v14 protocol handlers", "zigpy.datastructures.PriorityDynamicBoundedSemaphore"],
    "simulated": ["event loop + clock (dst.loop.SimLoop)", "zigpy.serial.create_serial_connection -> dst.line.SimTransport + FIFO line with faults",
                  "NCP ASH endpoint (dst.refash.NcpEndpoint, from UG101)", "NCP EZSP framing + stack model (dst.refezsp, dst.ncpmodel); "
                  "command payloads use bellows' schema tables (declared limitation)"],
}

compat.quiet_logging()
compat.install_requests_shim()
compat.pin_policy_order()


class StackRig:
    def __init__(self, tape, *, version=8, path="/dev/ttySIM", plan=None, K=1, sched=True, max_iters=400_000,
                 max_vt=1e6, chunking=True, monitor=True, fast_line=False, loop=None, defer=False, flow_control=None):
        self.tape = tape
        self.version, self.K, self.chunking, self.monitor, self.fast_line = version, K, chunking, monitor, fast_line
        self.log = []
        self.path = path
        self.flow_control = flow_control
        self.plan = plan if plan is not None else FaultPlan(tape, False)
        self.transport = None
        self.ash = None  # the real AshProtocol
        self.gw = None  # the real Gateway
        self.ezsp = None
        self.host_writes = []  # (t, frame tuple | None, bytes)
        self.reset_notes = []  # (t, code, what) every reset_received/error notification from the real AshProtocol
        self.on_host_frame = None  # callable(frame tuple) after each well-formed host write
        self.sent_payloads = []  # (t, bytes) every EZSP frame handed to Gateway.send_data
        self.on_send_data = None  # callable(bytes) at entry of Gateway.send_data (runs in the caller's task)
        self.on_send_done = None  # callable(bytes, exc) when Gateway.send_data returns or raises
        self.on_bind = None  # callable(rig) once line/NCP exist (threaded rigs bind late)
        self.loop = None
        compat.patch_random(tape)
        zigpy.serial.create_serial_connection = self._create_serial_connection
        bellows.uart.zigpy.serial.create_serial_connection = self._create_serial_connection
        if not defer:
            if isinstance(sched, dict):  # a fixed scheduling policy (directed sweeps)
                from .tape import PolicyTape

                ltape = PolicyTape(**sched)
            else:
                ltape = tape if sched else None
            self._bind(loop if loop is not None else SimLoop(ltape, max_iters=max_iters, max_vt=max_vt))

    def _bind(self, loop):
        """Create everything that lives on the loop the serial transport belongs to."""
        self.loop = loop
        self.shim = TimeShim(loop)
        compat.patch_time(self.shim)
        self.line = Line(loop, self.tape, self.plan, log=self.log, chunking=self.chunking, nodup_kinds=("rst", "rstack"))
        if self.fast_line:  # fixed 1 ms latency, no latency draws (properties that are not about link timing)
            self.line._latency = lambda: 0.001
        self.mon = WireMonitor(loop, payload_ok=None) if self.monitor else None
        self.ncp = Ncp(loop, self.tape, self.version, self.log)
        self.ncp_ash = R.NcpEndpoint(loop, self.tape, self._ncp_emit, upper=self.ncp, K=self.K, log=self.log)
        self.ncp.attach(self.ncp_ash)
        self.line.h2n.sink = self.ncp_ash.feed
        self.line.n2h.sink = self._to_host
        if self.on_bind is not None:
            self.on_bind(self)

    # ------------------------------------------------------------------ wiring
    async def _create_serial_connection(self, loop, protocol_factory, url=None, **kw):
        if self.loop is None:
            self._bind(loop)
        protocol = protocol_factory()
        self.ash = protocol
        self.gw = protocol._ezsp_protocol
        self._wrap_gateway(self.gw)
        self.transport = SimTransport(self.loop, self._host_write, log=self.log)
        if self.mon is not None:
            self.transport.on_mutated = lambda snap, now, _m=self.mon: _m._v("C03.tx", "buffer-mutated-after-write", f"the object handed to transport.write() ({snap.hex()}) was changed afterwards (now {now.hex()}): a transport that has not drained yet would put the new content on the wire")
        self.loop.call_soon(self.transport.attach, protocol)
        return self.transport, protocol

    def _wrap_gateway(self, gw):
        orig_reset, rig = gw.reset_received, self

        def reset_received(code):
            what = rig.mon.on_reset_received(code) if rig.mon is not None else "?"
            rig.reset_notes.append((rig.loop.time(), int(code), what))
            rig.log.append((rig.loop.time(), "host_reset_received", int(code), what))
            return orig_reset(code)

        gw.reset_received = reset_received
        orig_send = gw.send_data

        async def send_data(data):
            rig.sent_payloads.append((rig.loop.time(), bytes(data)))
            rig.log.append((rig.loop.time(), "gw_send_data", bytes(data).hex()))
            if rig.on_send_data is not None:
                rig.on_send_data(bytes(data))
            try:
                r = await orig_send(data)
            except BaseException as e:
                if rig.on_send_done is not None:
                    rig.on_send_done(bytes(data), e)
                raise
            if rig.on_send_done is not None:
                rig.on_send_done(bytes(data), None)
            return r

        gw.send_data = send_data

    def _ncp_emit(self, frame_wo_crc, kind):
        raw = R.with_crc(frame_wo_crc)
        self.line.send("n2h", b"", raw, R.wire_raw(raw), kind)

    def _host_write(self, data):
        fr = self.mon.on_host_write(data) if self.mon is not None else _parse(data)
        self.host_writes.append((self.loop.time(), fr, data))
        self.log.append((self.loop.time(), "host_tx", data.hex()))
        if fr is None:
            self.line.send("h2n", b"", None, data, "garbage")
            return
        ncan = 0
        while data[ncan] == R.CAN:
            ncan += 1
        raw, _ok = R.unstuff(data[ncan:-1])
        self.line.send("h2n", data[:ncan], raw, data, fr[0])
        if self.on_host_frame is not None:
            self.on_host_frame(fr)

    def _to_host(self, chunk):
        if self.transport is None:
            return
        if self.mon is not None and not self.transport._closing:
            self.mon.on_host_read(chunk)
        self.transport.feed(chunk)

    # ---------------------------------------------------------------- bring-up
    def device_config(self):
        return {"path": self.path, "baudrate": 115200, "flow_control": self.flow_control}

    async def connect(self):
        ez = bellows.ezsp.EZSP(self.device_config())
        self.ezsp = ez
        await ez.connect(use_thread=False)
        return ez

    async def bringup(self):
        ez = await self.connect()
        await ez.startup_reset()
        return ez

    def run(self, main):
        return run_sim(self.loop, main)

    # ------------------------------------------------------------------- utils
    def probes(self):
        p = dict(self.mon.probes) if self.mon is not None else {}
        for k, v in self.loop.sched_probes.items():
            if v:
                p["sched." + k] = v
        return p


def _parse(data):
    try:
        return R.decode_one_write(data)[1]
    except ValueError:
        return None
