"""Environment shims installed from outside /repo (no source hooks).

* zigpy.util.Requests: the installed zigpy (2.2.0) no longer ships the class
  bellows' ControllerApplication constructs.  A transcription of the class of
  the zigpy line this bellows was written against is installed ONLY if the
  attribute is missing.  It is part of the trusted base of C12.
* time seams: bellows modules do `import time`; the module attribute is rebound
  to an object whose monotonic() is the simulated clock.
"""
from __future__ import annotations

import asyncio
import logging


class _Request:
    def __init__(self, pending, sequence):
        self._pending = pending
        self._result = asyncio.get_event_loop().create_future()
        self._sequence = sequence

    @property
    def result(self):
        return self._result

    @property
    def sequence(self):
        return self._sequence

    def __enter__(self):
        self._pending[self.sequence] = self
        return self

    def __exit__(self, exc_type, exc_value, exc_traceback):
        if not self.result.done():
            self.result.cancel()
        self._pending.pop(self.sequence)
        return not exc_type


class _Requests(dict):
    def new(self, sequence):
        if sequence in self:
            import zigpy.exceptions

            raise zigpy.exceptions.ControllerException(f"duplicate {sequence} TSN")
        return _Request(self, sequence)


def install_requests_shim() -> bool:
    import zigpy.util

    if hasattr(zigpy.util, "Requests"):
        return False
    zigpy.util.Requests = _Requests
    return True


def quiet_logging():
    logging.disable(logging.CRITICAL)


def patch_time(shim):
    import bellows.ash
    import bellows.ezsp.protocol

    bellows.ash.time = shim
    bellows.ezsp.protocol.time = shim
    try:
        import zigpy.application

        if hasattr(zigpy.application, "time"):
            zigpy.application.time = shim
    except Exception:  # pragma: no cover
        pass


class TapeRandom:
    """Stands in for the `random` module inside bellows.ezsp.v4 (address-table slot choice): fed by the tape."""

    def __init__(self, tape):
        self.tape = tape

    def randint(self, a, b):
        return a + self.tape.draw(b - a + 1, "random.randint")

    def __getattr__(self, name):  # pragma: no cover - nothing else is used by bellows
        import random

        return getattr(random, name)


def patch_random(tape):
    import bellows.ezsp.v4

    bellows.ezsp.v4.random = TapeRandom(tape)


class _SortedSchema:
    """voluptuous fills in defaults for missing keys by iterating a *set* of markers, so the order in which bellows applies its EZSP policies
    (and with it sequence numbers and timing) depends on PYTHONHASHSEED. Order of the result pinned (sorted by key); contents untouched."""

    def __init__(self, schema):
        self._schema = schema

    def __call__(self, data):
        out = self._schema(data)
        return dict(sorted(out.items(), key=lambda kv: str(kv[0])))

    def __getattr__(self, name):
        return getattr(self._schema, name)


def pin_policy_order():
    import importlib

    from bellows.config import CONF_EZSP_POLICIES

    for v in range(4, 15):
        mod = importlib.import_module(f"bellows.ezsp.v{v}")
        cls = getattr(mod, f"EZSPv{v}")
        sch = cls.SCHEMAS.get(CONF_EZSP_POLICIES)
        if sch is not None and not isinstance(sch, _SortedSchema):
            cls.SCHEMAS = dict(cls.SCHEMAS)
            cls.SCHEMAS[CONF_EZSP_POLICIES] = _SortedSchema(sch)
