"""Whole-stack soak: ONE ControllerApplication object living through several connection epochs.

    epoch := connect() + start_network() + real watchdog loop
             + traffic (unicast sends with scripted confirmations, incoming messages, joins/leaves, multicast table operations)
             + optionally an NCP failure at a drawn instant (ERROR, unsolicited reset, connection loss, EOF, silence)
             + disconnect()   [+ the stick re-flashed to another EZSP version]

Every layer is the real one (AshProtocol, Gateway, EZSP, version handlers, Multicast, ControllerApplication); the NCP, the line,
the clock and the schedule are simulated.  The oracles are the per-property ones, restricted to what stays decidable when several
things happen at once (each clause says when it applies):

  C13.one / C13.join  every callback the NCP emitted while the session was healthy and the host's ASH acknowledged yields exactly its
                      packet / join / leave - also after a reconnect to another version
  C12.ok/err/noother  a unicast whose own confirmation was emitted while the session was healthy ends the way that confirmation says
  C12.clean           no pending entry left after a call ended
  C06.seq / C06.own   (fault-free line) request sequence numbers seen by the NCP advance by one during traffic; keep-alives answered
  C15.mirror          at the end of a healthy epoch the host's multicast view equals the NCP's table
  C19.exact           no restart request while the NCP answers every keep-alive; keep-alive command per version
  C10.report/quiet    an injected failure is reported to the application (connection_lost) within the detection bound; a deliberate
                      disconnect is not
  C10.bounded         sends in progress at a failure end within the confirmation timeout
"""
from __future__ import annotations

import asyncio
import hashlib

import zigpy.exceptions
import zigpy.types as zt

from . import e3app
from . import refash as R
from .line import FaultPlan
from .ncpmodel import STATUS, St
from .props.c13 import BROADCAST, MULTICAST, UNICAST, enc_aps, enc_incoming, enc_tcjoin

COMPONENTS = e3app.COMPONENTS
VERSIONS = tuple(range(4, 15))
FAIL_KINDS = ("none", "none", "error", "rstack", "lost", "eof", "silent")
PROBES = ["soak.epochs", "soak.reconnect_other_version", "soak.fail.error", "soak.fail.rstack", "soak.fail.lost", "soak.fail.eof", "soak.fail.silent", "soak.fail.none",
          "soak.send.success", "soak.send.failure", "soak.send.never", "soak.send.cut_by_failure", "soak.incoming", "soak.join", "soak.leave", "soak.mc_subscribe",
          "soak.mc_unsubscribe", "soak.keepalives", "soak.faulty_line", "soak.start.zigpy", "soak.start.zigpy-fresh", "soak.started_by_zigpy_initialize", "soak.startup_failed_by_command_queued_at_reset", "soak.failure_frame_destroyed_by_line", "soak.reported", "soak.sends_in_progress_at_failure", "soak.exception_escaped_after_failure"]


def run(params, tape, detail=False):
    V0 = params["V"] if "V" in params else VERSIONS[tape.draw(len(VERSIONS), "V")]
    faults = bool(params.get("faults", tape.draw(4, "faults?") == 3))
    plan_ = FaultPlan.swarm(tape) if faults else None
    if plan_ is not None:
        plan_.on = False
    rig = e3app.AppRig(tape, version=V0, sched=params.get("sched", True), plan=plan_, fast_line=not faults, chunking=faults, K=1 + tape.draw(3, "K"))
    rig.line.ties = False
    loop, ncp, nash = rig.loop, rig.ncp, rig.ncp_ash
    # how the application is brought up: 'wired' = connect() + start_network() on a stick that already has a network; 'zigpy' = connect() +
    # zigpy's own initialize(auto_form=True) (which also starts zigpy's watchdog task) on such a stick; 'zigpy-fresh' = the same on a stick that
    # never had a network (zigpy forms one: ephemeral network, energy scan, final settings, second start_network on the same connection)
    start_mode = params.get("start") or ("wired", "wired", "zigpy", "zigpy-fresh")[tape.draw(4, "start")]
    if start_mode != "zigpy-fresh":
        ncp.preform()
    import bellows.zigbee.application as appmod

    from .props.c14 import OsShim

    appmod.os = OsShim(tape)
    viol, probes = [], {}

    def probe(n, k=1):
        probes["soak." + n] = probes.get("soak." + n, 0) + k

    if faults:
        probe("faulty_line")
    nepochs = params.get("epochs") or (1 + tape.draw(3, "epochs"))
    ses = {"healthy": False, "epoch": -1, "V": V0, "t_fail": None, "kind": None, "t_start": None}
    ses_fail_times = {}  # epoch -> instant of the injected failure
    sends = []  # records
    cbs = []  # emitted callbacks: dict(kind, epoch, t, pid, want...)
    mc = {"ops": []}
    cur_send = {}  # (dest) -> record whose enqueue is expected next
    slack = 30.0 if faults else 0.05

    def healthy():
        return ses["healthy"] and nash.failed is None and not rig.lost and ses["t_fail"] is None

    # ------------------------------------------------------------------ NCP side: sends
    def h_sendUnicast(req, **kw):
        V = ses["V"]
        if V >= 14:
            dest, aps, tag = int(kw["nwk"]), kw["aps_frame"], int(kw["message_tag"])
        else:
            dest, aps, tag = int(kw["indexOrDestination"]), kw["apsFrame"], int(kw["messageTag"])
        r = cur_send.get(dest)
        if r is None or r["t_acc"] is not None:
            # start-up traffic (coordinator initialisation) or an unscripted send: confirm at once
            ncp._sent_cb(0, dest, aps, tag, "OK", b"", 0.01)
            return (St("OK"), int(aps.sequence))
        r["t_acc"], r["tag"] = loop.time(), tag
        r["healthy_at_acc"] = healthy()
        if r["conf"] in ("success", "failure"):
            status = "OK" if r["conf"] == "success" else "DELIVERY_FAILED"

            def own(r=r, dest=dest, aps=aps, tag=tag, status=status):
                r["own_emitted"] = (loop.time(), healthy())
                ncp._sent_cb(0, dest, aps, tag, status, b"", 0.0)

            loop.external(loop.time() + r["cdelay"], own, group="ncp-app")
        for (delay, st_) in r["noise"]:
            # confirmations that are not this call's: another tag, another destination
            loop.external(loop.time() + delay, lambda st_=st_, dest=dest, aps=aps, tag=tag: ncp._sent_cb(0, dest ^ 0x0800, aps, tag, st_, b"", 0.0), group="ncp-app")
            loop.external(loop.time() + delay, lambda st_=st_, dest=dest, aps=aps, tag=tag: ncp._sent_cb(0, dest, aps, (tag + 101) % 256, st_, b"", 0.0), group="ncp-app")
        return (St("OK"), int(aps.sequence))

    ncp.h_sendUnicast = h_sendUnicast
    ncp.h_getExtendedTimeout = lambda req, remoteEui64: (False,)
    ncp.h_setSourceRoute = lambda req, **kw: (St("OK"),)
    ncp.h_lookupNodeIdByEui64 = lambda req, eui64: (0xFFFF,)

    keepalives = []  # (t, epoch, name)
    traffic_reqs = []  # (t, epoch, seq, name) requests seen by the NCP during the traffic phase

    def on_request(req):
        if req.name in ("nop", "readCounters", "readAndClearCounters"):
            keepalives.append((loop.time(), ses["epoch"], req.name))
        if ses["healthy"] and ses["t_fail"] is None:
            traffic_reqs.append((loop.time(), ses["epoch"], req.seq, req.name))

    ncp.on_request = on_request

    # ------------------------------------------------------------------ host side helpers
    devices = {}

    def device(app, i):
        if i not in devices:
            eui = bytes([0xD0 + i, 9, 8, 7, 6, 5, 4, 3])
            nwk = 0x3000 + 0x101 * i
            app.add_device(zt.EUI64.deserialize(eui)[0], nwk)
            devices[i] = (eui, nwk)
        return devices[i]

    async def do_send(app, r):
        eui, nwk = device(app, r["dev"])
        r["dest"] = nwk
        pkt = zt.ZigbeePacket(src=zt.AddrModeAddress(addr_mode=zt.AddrMode.NWK, address=0x0000), src_ep=1, dst_ep=1, tsn=r["tsn"], profile_id=260, cluster_id=6,
                              data=zt.SerializableBytes(b"soak-" + bytes([r["i"] & 0xFF])), radius=0, non_member_radius=3,
                              dst=zt.AddrModeAddress(addr_mode=zt.AddrMode.NWK, address=nwk))
        # one scripted send per destination at a time
        while cur_send.get(nwk) is not None and cur_send[nwk]["t_end"] is None:
            await asyncio.sleep(0.05)
        cur_send[nwk] = r
        r["t0"] = loop.time()
        r["epoch"] = ses["epoch"]
        try:
            await app.send_packet(pkt)
            r["out"] = ("ok", None)
        except asyncio.CancelledError:
            r["out"] = ("cancelled", None)
            raise
        except BaseException as e:  # noqa: BLE001
            r["out"] = ("raised", e)
        finally:
            r["t_end"] = loop.time()
            r["pending_after"] = [k for k in app._pending if k[0] == nwk]

    def emit_incoming(i):
        if not healthy():
            return
        V = ses["V"]
        mtype = (UNICAST, UNICAST, MULTICAST, BROADCAST, 1, 5)[tape.draw(6, "in.type")]
        L = (0, 1, 7, 40, 80)[tape.draw(5, "in.len")]
        msg = bytes((i * 11 + j) & 0xFF for j in range(L))
        aps = (0x0104, 0x0500 + (i & 0xFF), 1 + i % 3, 1, 0x0140, 0x4000 + (i & 0xFF), (0x40 + i) & 0xFF)
        lqi, rssi, sender = (i * 7) & 0xFF, -100 + (i % 90), 0x5000 + (i & 0xFF)
        frame = enc_incoming(V, ncp.last_rsp_seq, mtype, enc_aps(*aps), lqi, rssi, sender, 0xFF, 0xFF, msg)
        rec = {"kind": "incoming", "epoch": ses["epoch"], "t": loop.time(), "pid": len(nash.submitted), "mtype": mtype, "aps": aps, "lqi": lqi, "rssi": rssi, "sender": sender,
               "msg": msg, "V": V}
        cbs.append(rec)
        probe("incoming")
        ncp.emit(frame, 0.0, "cb")

    def emit_join(i):
        if not healthy():
            return
        V = ses["V"]
        status = (0, 1, 2, 3)[tape.draw(4, "join.status")]
        decision = (0, 0, 1, 2)[tape.draw(4, "join.decision")]
        eui = bytes([0xE0 + (i & 0xF), 1, 1, 2, 3, 5, 8, 13])
        nwk, parent = 0x6000 + (i & 0xFF), 0x0000
        frame = enc_tcjoin(V, ncp.last_rsp_seq, nwk, eui, status, decision, parent)
        cbs.append({"kind": "join", "epoch": ses["epoch"], "t": loop.time(), "pid": len(nash.submitted), "status": status, "decision": decision, "eui": eui, "nwk": nwk,
                    "parent": parent, "V": V})
        probe("leave" if status == 2 else "join")
        ncp.emit(frame, 0.0, "cb")

    def inject(kind):
        if ses["t_fail"] is not None or rig.lost:
            return
        if plan_ is not None:
            plan_.on = False
            rig.line._latency = lambda: 0.001
            rig.line.n2h.clear()
            rig.line.h2n.clear()
        ses["t_fail"], ses["kind"] = loop.time(), kind
        ses_fail_times[ses["epoch"]] = loop.time()
        ses["in_progress"] = [r for r in sends if r.get("t0") is not None and r["t_end"] is None]
        if ses["in_progress"]:
            probe("sends_in_progress_at_failure")
        rig.log.append((loop.time(), "INJECT", kind))
        if kind == "error":
            nash.force_error(0x51) if nash.failed is None else nash.emit(R.f_error(0x51), "error")
        elif kind == "rstack":
            nash.do_reset((0x02, 0x03, 0x06, 0x09)[tape.draw(4, "rcode")])
        elif kind == "lost":
            rig.transport.inject_lost(ConnectionResetError("simulated loss"))
        elif kind == "eof":
            rig.transport.inject_eof()
        elif kind == "silent":
            nash.silent = True
            nash._cancel_ack_timer()

    # ------------------------------------------------------------------ the life of one application object
    nsend = [0]
    ncb = [0]
    st = {}
    mc_lock = asyncio.Lock()

    def data_between_rst_and_rstack():
        """The known race (DESIGN.md F13): a host DATA frame first written after an RST of the host and before the RSTACK answering it."""
        rst_t = None
        rstacks = sorted(t_ for (t_, fr) in rig.mon.rx_frames if fr[0] == "rstack")
        for (t_, fr, _d) in rig.host_writes:
            if fr is None:
                continue
            if fr[0] == "rst":
                rst_t = t_
            elif fr[0] == "data" and not fr[2] and rst_t is not None and not any(rst_t <= r <= t_ for r in rstacks):
                return (rst_t, t_)
        return None

    def startup_failed(ex, where):
        hit = data_between_rst_and_rstack()
        if hit is not None:
            probe("startup_failed_by_command_queued_at_reset")
            viol.append(("C09.fallback", "command-queued-at-reset", f"soak: {where} raised {ex!r}: a command of another caller (zigpy's watchdog keep-alive) was queued for the command slot when "
                         f"bellows reset the NCP; its DATA frame was written at t={hit[1]:.4f}, after the RST (t={hit[0]:.4f}) and before the RSTACK"))
        else:
            viol.append(("C09.retry", "soak-reconnect", f"soak: {where} raised {ex!r} on a quiet line"))

    async def epoch(app, e):
        V = ses["V"]
        ses.update(epoch=e, healthy=False, t_fail=None, kind=None)
        nash.silent = False
        ncp.auto_confirm = True
        lost0 = len(rig.lost)
        try:
            by_zigpy = start_mode != "wired" if e == 0 else bool(tape.draw(2, "restart.by_zigpy"))
            if e == 0:
                pass  # started in main()
            else:
                await app.connect()
                rig.ezsp = app._ezsp
                if by_zigpy:
                    await app.initialize(auto_form=True)
                else:
                    await app.start_network()
        except Exception as ex:  # noqa: BLE001
            startup_failed(ex, f"epoch {e} (NCP v{V}): connect() / start_network() / initialize()")
            return False
        ncp.auto_confirm = False
        if by_zigpy:
            probe("started_by_zigpy_initialize")
            wd = app._watchdog_task  # zigpy's own
        else:
            wd = loop.create_task(app._watchdog_loop())
        await asyncio.sleep(0.2)
        if plan_ is not None:
            plan_.on = True
            rig.line._latency = type(rig.line)._latency.__get__(rig.line)
        ses["healthy"] = True
        ses["t_start"] = loop.time()
        probe("epochs")
        dur = (3.0, 12.0, 35.0, 70.0)[tape.draw(4, "dur")]
        nev = 3 + tape.draw(25, "nev")
        tasks = []
        t0 = loop.time()
        kind = FAIL_KINDS[tape.draw(len(FAIL_KINDS), "fail.kind")] if "fail" not in params else params["fail"]
        if kind != "none":
            loop.external(t0 + dur * (1 + tape.draw(9, "fail.at")) / 10.0, inject, kind, group=None)
        for _ in range(nev):
            at = t0 + dur * tape.draw(1000, "ev.at") / 1000.0
            what = tape.draw(8, "ev.what")
            if what <= 2:
                i = nsend[0]
                nsend[0] += 1
                conf = ("success", "success", "success", "failure", "never")[tape.draw(5, "send.conf")] if dur < 60 else ("success", "failure")[tape.draw(2, "send.conf")]
                r = {"i": i, "dev": tape.draw(3, "send.dev"), "tsn": (0x10 + tape.draw(4, "send.tsn")) & 0xFF, "conf": conf, "cdelay": (0.01, 0.3, 2.0, 9.0)[tape.draw(4, "send.cdelay")],
                     "noise": [((0.005, 0.2)[tape.draw(2, "noise.d")], ("OK", "DELIVERY_FAILED")[tape.draw(2, "noise.s")])] if tape.draw(3, "noise?") == 2 else [],
                     "t_acc": None, "t0": None, "t_end": None, "out": None, "tag": None}
                sends.append(r)
                loop.external(at, lambda r=r: tasks.append(loop.create_task(do_send(app, r))), group=None)
            elif what <= 4:
                ncb[0] += 1
                loop.external(at, emit_incoming, ncb[0], group="ncp-app")
            elif what == 5:
                ncb[0] += 1
                loop.external(at, emit_join, ncb[0], group="ncp-app")
            else:
                g = 0x7000 + tape.draw(4, "mc.group")
                sub = bool(tape.draw(3, "mc.sub"))

                async def mcop(g=g, sub=sub):
                    # one table operation at a time: C15 quantifies over operation *sequences* (two overlapping subscribes of one
                    # group race in Multicast.subscribe - an observation recorded in DESIGN.md, outside the property's quantifier)
                    async with mc_lock:
                        if not healthy():
                            return
                        probe("mc_subscribe" if sub else "mc_unsubscribe")
                        try:
                            await (app.multicast.subscribe(g) if sub else app.multicast.unsubscribe(g))
                        except Exception:  # noqa: BLE001 - a table write cut by the failure
                            pass

                loop.external(at, lambda mcop=mcop: tasks.append(loop.create_task(mcop())), group=None)
        await asyncio.sleep(dur + 0.5)
        # ---- after the traffic window
        if ses["t_fail"] is None:
            # let confirmations (<= 9 s) and retransmissions settle, then compare the multicast view
            await asyncio.sleep(12.0 + slack)
            if healthy():
                host = sorted(int(g) for g in app.multicast._multicast)
                table = sorted(g for (g, ep) in ncp.multicast.values() if ep != 0)
                # (quiet lines only: on a faulty line a table write may be applied by the NCP although its reply outlasts the command timeout -
                # the host then rightly treats the call as failed and the two views differ until the next start-up, as C15 itself notes)
                if host != table and not faults:
                    viol.append(("C15.mirror", "soak", f"soak epoch {e} (v{V}): host reports groups {host} subscribed, the NCP table has {table}"))
                if rig.lost[lost0:]:
                    viol.append(("C19.exact", "loop-lost-early", f"soak epoch {e} (v{V}): restart requested ({rig.lost[lost0][1]!r}) although the NCP answered every keep-alive and nothing failed"))
            ses["healthy"] = False
            if plan_ is not None:
                plan_.on = False
            await asyncio.sleep(slack)
            nlost = len(rig.lost)
            wd.cancel()
            await app.disconnect()
            await asyncio.sleep(1.0)
            if len(rig.lost) != nlost and not faults:
                viol.append(("C10.quiet", "soak", f"soak epoch {e} (v{V}): a deliberate disconnect() was reported to the application as a lost connection: {rig.lost[nlost:]}"))
        else:
            t_f, k = ses["t_fail"], ses["kind"]
            probe("fail." + k)
            bound = 0.5 if k != "silent" else 45.0
            await asyncio.sleep(max(0.0, t_f + bound - loop.time()) + 0.1)
            rep = [x for x in rig.lost[lost0:] if x[0] >= t_f - 1e-9]
            # (faulty line: the NCP may die in the middle of one of its frames; the host then holds the head of that frame and the ERROR / RSTACK
            # frame arrives glued to it - one corrupt frame, answered with a NAK. The failure frame never reached the host intact: a line fault on
            # top of the failure, outside the statement - same rule as C10's `faulty` scenario)
            destroyed = faults and k in ("error", "rstack") and not any(tt >= t_f - 1e-9 and fr[0] == k for (tt, fr) in rig.mon.rx_frames)
            if destroyed:
                probe("failure_frame_destroyed_by_line")
            if destroyed and not rig.lost[lost0:]:
                pass  # nothing the host could have reported yet
            elif not rep and not rig.lost[lost0:]:
                viol.append(("C10.report", "soak-not-reported", f"soak epoch {e} (v{V}): {k} injected at t={t_f:.4f}; the application's connection_lost was not called within {bound}s"))
            else:
                probe("reported")
                # C10.stopped: the EZSP layer is stopped, a new command raises at once
                ez = app._ezsp
                if ez is not None and ez.is_ezsp_running:
                    viol.append(("C10.stopped", "soak-running", f"soak epoch {e} (v{V}): EZSP still marked running after the {k} failure was reported"))
            ses["healthy"] = False
            wd.cancel()
            # sends in progress at the failure: bounded by the confirmation timeout
            await asyncio.sleep(125.0)
            for r in ses.get("in_progress", []):
                if r["t_end"] is None:
                    viol.append(("C10.bounded", "soak-send-hang", f"soak epoch {e} (v{V}): send {r['i']} in progress at the {k} failure never ended"))
            await app.disconnect()
            await asyncio.sleep(1.0)
        for tk in tasks:
            if not tk.done():
                tk.cancel()
        await asyncio.sleep(0.01)
        return True

    async def main():
        if start_mode == "wired":
            app = await rig.start_app()
        else:
            import zigpy.config as zc

            probe("start." + start_mode)
            nwk_cfg = {zc.CONF_NWK_PAN_ID: 0x1A2B, zc.CONF_NWK_EXTENDED_PAN_ID: zt.ExtendedPanId.convert("11:22:33:44:55:66:77:88"), zc.CONF_NWK_KEY: zt.KeyData(bytes(range(16)))}
            app = rig.make_app(**{zc.CONF_NWK: nwk_cfg})
            ncp.auto_confirm = True
            await app.connect()
            rig.ezsp = app._ezsp
            try:
                await app.initialize(auto_form=True)
            except Exception as ex:  # noqa: BLE001
                startup_failed(ex, f"first start-up through zigpy's initialize(auto_form=True) ({start_mode}, NCP v{V0})")
                return
        st["app"] = app
        for e in range(nepochs):
            if e > 0:
                if tape.draw(2, "reflash"):
                    V2 = VERSIONS[tape.draw(len(VERSIONS), "V2")]
                    if V2 != ses["V"]:
                        probe("reconnect_other_version")
                    ncp.set_version(V2)
                    ses["V"] = V2
                # whatever the NCP was doing before, it reboots with the new connection
                nash.silent = False
            ok = await epoch(app, e)
            if not ok:
                break
        if len(app._pending):
            viol.append(("C12.clean", "table-not-empty", f"soak: pending table not empty at the end: {list(app._pending)}"))

    outcome, val = rig.run(main())
    if outcome != "done":
        viol.append(("C10.bounded", "soak-sim-" + outcome, f"soak (v{V0}, {nepochs} epochs): simulation ended with {outcome}: {val!r}"))

    # ------------------------------------------------------------------ post-hoc oracles
    acked = set(nash.acked)
    # incoming messages / joins
    pk_used = set()
    for c in cbs:
        if c["pid"] not in acked:
            continue  # never acknowledged by the host's link layer (cut by a failure)
        if c["kind"] == "incoming":
            profile, cluster, sep, dep, options, group, seq = c["aps"]
            match = [i for i, (tt, p) in enumerate(rig.packets) if tt >= c["t"] - 1e-9 and p.cluster_id == cluster and p.tsn == seq and int(p.src.address) == c["sender"]]
            tag = f"soak (v{c['V']}, epoch {c['epoch']}): incomingMessageHandler type={c['mtype']} cluster={cluster:#06x} tsn={seq} len={len(c['msg'])} emitted at t={c['t']:.4f}"
            if c["mtype"] in (UNICAST, MULTICAST, BROADCAST):
                if len(match) != 1:
                    viol.append(("C13.one", "soak-count", f"{tag}: {len(match)} packets handed to zigpy (expected exactly one)"))
                    continue
                p = rig.packets[match[0]][1]
                want_dst = {UNICAST: ("NWK", 0x0000), MULTICAST: ("Group", group), BROADCAST: ("Broadcast", 0xFFFC)}[c["mtype"]]
                have = (p.src.addr_mode.name, p.src_ep, p.dst.addr_mode.name, int(p.dst.address), p.dst_ep, p.profile_id, bytes(p.data.serialize()), p.lqi, p.rssi)
                want = ("NWK", sep, want_dst[0], want_dst[1], dep, profile, c["msg"], c["lqi"], c["rssi"])
                if have != want:
                    viol.append(("C13.one", "soak-field", f"{tag}: packet {have} differs from the callback {want}"))
            elif match:
                viol.append(("C13.one", "soak-other-type-delivered", f"{tag}: {len(match)} packet(s) for a message type that is neither unicast, multicast nor broadcast"))
        else:
            j = [(a, b, cc) for (tt, a, b, cc) in rig.joins if tt >= c["t"] - 1e-9 and b == c["eui"] and a == c["nwk"]]
            lv = [(a, b) for (tt, a, b) in rig.leaves if tt >= c["t"] - 1e-9 and b == c["eui"] and a == c["nwk"]]
            tag = f"soak (v{c['V']}, epoch {c['epoch']}): trustCenterJoinHandler nwk={c['nwk']:#06x} status={c['status']} decision={c['decision']}"
            if c["status"] == 2:
                wj, wl = 0, 1
            elif c["decision"] == 2:
                wj, wl = 0, 0
            else:
                wj, wl = 1, 0
            if len(j) != wj or len(lv) != wl:
                viol.append(("C13.join", "soak", f"{tag}: {len(j)} join(s) and {len(lv)} leave(s) handed to zigpy, expected {wj} and {wl}"))
    # sends
    for r in sends:
        if r["t0"] is None:
            continue
        tag = f"soak send {r['i']} (epoch {r.get('epoch')}, dest {r.get('dest', 0):#06x}, tag {r['tag']}) own confirmation={r['conf']} after {r['cdelay']}s noise={r['noise']}"
        if r["t_end"] is not None and r.get("pending_after"):
            viol.append(("C12.clean", "entry-left", f"{tag}: pending table holds {r['pending_after']} after the call ended ({r['out'] and r['out'][0]})"))
        if r["out"] is None or r["t_acc"] is None or not r.get("healthy_at_acc"):
            continue
        if faults:
            continue  # on a faulty line the enqueue response itself may outlast the 10 s command timeout: C12's outcome clauses are judged on quiet lines only
        kind, e = r["out"]
        own = r.get("own_emitted")
        if r["conf"] in ("success", "failure"):
            if own is None or not own[1]:
                probe("send.cut_by_failure")
                continue  # its confirmation fell after a failure: outcome not constrained here
            # was the session still healthy when the confirmation had time to arrive?
            cut = [x for x in (ses_fail_times.get(r["epoch"]),) if x is not None and x <= own[0] + slack + 0.01]
            if cut:
                probe("send.cut_by_failure")
                continue
            probe("send." + r["conf"])
            if r["conf"] == "success":
                if kind != "ok":
                    viol.append(("C12.err", "soak-failed-although-confirmed", f"{tag}: raised {e!r} although its own confirmation reported success at t={own[0]:.4f}"))
                elif r["t_end"] < own[0] - 1e-6:
                    viol.append(("C12.noother", "completed-by-stale-confirmation", f"{tag}: returned at t={r['t_end']:.4f}, before its own confirmation was emitted (t={own[0]:.4f})"))
                elif r["t_end"] > own[0] + slack + 0.01:
                    viol.append(("C12.ok", "when", f"{tag}: returned at t={r['t_end']:.4f}, own success confirmation emitted at t={own[0]:.4f}"))
            else:
                if kind == "ok":
                    viol.append(("C12.ok", "returned-without-success", f"{tag}: returned normally although its own confirmation reported failure"))
                elif not isinstance(e, zigpy.exceptions.DeliveryError):
                    viol.append(("C12.err", "wrong-exception", f"{tag}: expected DeliveryError, got {e!r}"))
                elif r["t_end"] < own[0] - 1e-6:
                    viol.append(("C12.noother", "failed-by-stale-confirmation", f"{tag}: raised at t={r['t_end']:.4f}, before its own confirmation was emitted (t={own[0]:.4f})"))
        else:
            tf = ses_fail_times.get(r["epoch"])
            if tf is not None and tf <= r["t_acc"] + 121.0:
                probe("send.cut_by_failure")
                continue
            probe("send.never")
            if kind == "ok":
                viol.append(("C12.ok", "returned-without-confirmation", f"{tag}: returned normally although no confirmation of its own was ever emitted"))
            elif not isinstance(e, asyncio.TimeoutError) and kind != "cancelled":
                viol.append(("C12.err", "wrong-exception", f"{tag}: expected TimeoutError (no own confirmation), got {e!r}"))
    # nothing may escape a protocol callback: AshProtocol.data_received (C02), EZSP.frame_received (C08) - observed at the transport (which
    # catches what data_received lets out) and at the loop's exception handler ("Exception in callback ..."; "Task exception was never
    # retrieved" entries come from abandoned tasks after an injected failure and are not callbacks)
    esc = [repr(e)[:120] for e in (rig.transport.raised if rig.transport is not None else [])]
    esc += [f"{m}: {n} {r}"[:160] for (m, n, r) in rig.loop.exceptions if str(m).startswith("Exception in callback")]
    if esc and not ses_fail_times:
        for cl in ("C02.noraise", "C08.noraise"):
            viol.append((cl, "soak-escaped", f"soak (v{V0}, {nepochs} epochs, no failure injected): an exception escaped a protocol callback: {esc[:2]}"))
    elif esc:
        probe("exception_escaped_after_failure", len(esc))
    # request sequence numbers during traffic (fault-free line only: a request lost with a failing link consumes a number unseen)
    if not faults:
        prev = None
        for (tt, ep, seq, name) in traffic_reqs:
            if prev is not None and prev[1] == ep and seq != (prev[2] + 1) % 256:
                viol.append(("C06.seq", "soak-step", f"soak epoch {ep}: request {name} at t={tt:.4f} carries sequence {seq}, the previous request ({prev[3]}) carried {prev[2]}"))
                break
            prev = (tt, ep, seq, name)
    # keep-alive command per version
    for (tt, ep, name) in keepalives:
        pass
    if keepalives:
        probe("keepalives", len(keepalives))
    for k, v in rig.probes().items():
        if k.startswith("sched."):
            probes[k] = probes.get(k, 0) + v
    fired = {k: v for k, v in (plan_.fired.items() if plan_ is not None else ()) if not k.endswith(".deliver")}
    for k in ("error", "rstack", "lost", "eof", "silent"):
        if probes.get("soak.fail." + k):
            fired["inject." + k] = probes["soak.fail." + k]
    desc = (V0, nepochs, faults, [(r["conf"], r["cdelay"], r["out"] and r["out"][0]) for r in sends], [(c["kind"], c.get("mtype"), c["V"]) for c in cbs], sorted(probes))
    res = {"viol": _uniq(viol), "faults": fired, "probes": probes, "vt": loop.time(), "iters": loop.iters,
           "sig": hashlib.blake2b(repr(desc).encode(), digest_size=8).digest(), "nontrivial": True,
           "digest": hashlib.sha256(repr((rig.log[-400:], loop.time(), loop.iters, desc)).encode()).hexdigest()[:16],
           "sample": {"scenario": "soak", "V": V0, "epochs": nepochs, "faulty_line": faults, "sends": len(sends), "callbacks": len(cbs), "failures": [k for k in probes if k.startswith("soak.fail.")],
                      "connection_lost_calls": len(rig.lost)}}
    if detail:
        res["trace"] = [repr(e) for e in rig.log[-300:]]
    return res


def _uniq(viol):
    seen, out = set(), []
    for v in viol:
        if (v[0], v[1]) not in seen:
            seen.add((v[0], v[1]))
            out.append(v)
    return out
