"""Virtual-time asyncio event loop whose scheduling decisions come from the tape.

* time() is a float that only moves when nothing is runnable: the loop jumps to
  the earliest timer.
* own (when, seq) heap, so equal-time timers are FIFO unless the tape says
  otherwise (asyncio's TimerHandle heap is not FIFO for equal `when`).
* the ready queue is run exactly as asyncio runs it (handles present at the
  start of the iteration, FIFO).
* scheduler decisions (tape draws, 0 = benign):
    order  - which of several timers due at exactly the same instant runs first
    batch  - whether the next timer due at the same instant joins the same
             iteration (=> runs before the wake-ups caused by the first one)
    join   - whether a timer that is already due runs at the tail of an
             iteration that still has ready handles (what a real loop does)
  Two external events of the same group (same transport) are never batched.
"""
from __future__ import annotations

import asyncio
import heapq

from asyncio import events


class Quiescent(Exception):
    """Nothing is runnable and no timer is pending: the system is stuck."""


class StepCap(Exception):
    """Iteration or virtual-time cap reached."""


class _Timer(events.TimerHandle):
    __slots__ = ("_group",)


class SimLoop(asyncio.BaseEventLoop):
    def __init__(self, tape=None, max_iters: int = 200_000, max_vt: float = 1e7):
        super().__init__()
        self._vt = 0.0
        self._clock_resolution = 1e-9
        self._heap: list = []
        self._hseq = 0
        self.iters = 0
        self.tape = tape
        self.max_iters = max_iters
        self.max_vt = max_vt
        self.exceptions: list = []  # (message, exception repr) from the handler
        self.sched_probes = {"tie": 0, "reorder": 0, "batch": 0, "join": 0}
        self.set_exception_handler(self._on_exception)
        self.recording = True

    # ------------------------------------------------------------------ clock
    def time(self) -> float:
        return self._vt

    # ------------------------------------------------------------- selectors
    def _process_events(self, event_list):  # pragma: no cover
        pass

    def _write_to_self(self):
        pass

    # ---------------------------------------------------------------- timers
    def call_at(self, when, callback, *args, context=None, group=None):
        h = _Timer(when, callback, args, self, context)
        h._group = group
        self._hseq += 1
        heapq.heappush(self._heap, (when, self._hseq, h))
        h._scheduled = True
        return h

    def call_later(self, delay, callback, *args, context=None, group=None):
        return self.call_at(self.time() + delay, callback, *args, context=context, group=group)

    def external(self, when, callback, *args, group=None):
        """Schedule an event of the outside world (never in the past)."""
        now = self.time()
        if when < now:
            when = now
        return self.call_at(when, callback, *args, group=group)

    def _timer_handle_cancelled(self, handle):
        pass

    # ------------------------------------------------------------- exceptions
    def _on_exception(self, loop, context):
        if not self.recording:
            return
        msg = context.get("message", "")
        if "was destroyed but it is pending" in msg:
            return
        exc = context.get("exception")
        self.exceptions.append((msg, type(exc).__name__ if exc is not None else None, repr(exc)))

    # ------------------------------------------------------------- scheduler
    def _purge(self):
        heap = self._heap
        while heap and heap[0][2]._cancelled:
            heapq.heappop(heap)[2]._scheduled = False

    def _pop_due(self, groups):
        """Pop one timer due now (when <= vt); tape chooses among exact ties.

        Returns the handle or None. `groups` is the set of groups already in the
        current iteration; a timer of one of those groups is not eligible."""
        heap = self._heap
        self._purge()
        if not heap or heap[0][0] > self._vt:
            return None
        when = heap[0][0]
        tape = self.tape
        # fast path: no tie
        first = heapq.heappop(heap)
        self._purge()
        if tape is None or not heap or heap[0][0] != when:
            if groups and first[2]._group is not None and first[2]._group in groups:
                heapq.heappush(heap, first)
                return None
            first[2]._scheduled = False
            return first[2]
        # exact tie: collect all candidates at `when`
        cands = [first]
        while heap and heap[0][0] == when:
            e = heapq.heappop(heap)
            if not e[2]._cancelled:
                cands.append(e)
        elig = [e for e in cands if not (groups and e[2]._group is not None and e[2]._group in groups)]
        chosen = None
        if elig:
            if len(elig) > 1:
                self.sched_probes["tie"] += 1
                i = tape.draw(len(elig), "sched.order")
                if i:
                    self.sched_probes["reorder"] += 1
                chosen = elig[i]
            else:
                chosen = elig[0]
        for e in cands:
            if e is not chosen:
                heapq.heappush(heap, e)
        if chosen is None:
            return None
        chosen[2]._scheduled = False
        return chosen[2]

    def _run_once(self):
        self.iters += 1
        if self.iters > self.max_iters:
            raise StepCap(f"iteration cap {self.max_iters} reached at t={self._vt}")
        ready = self._ready
        heap = self._heap
        tape = self.tape
        take = False
        if not ready:
            self._purge()
            if not heap:
                raise Quiescent(f"quiescent at t={self._vt}")
            when = heap[0][0]
            if when > self.max_vt:
                raise StepCap(f"virtual time cap {self.max_vt} reached")
            if when > self._vt:
                self._vt = when
            take = True
        elif tape is not None and heap and heap[0][0] <= self._vt:
            self._purge()
            if heap and heap[0][0] <= self._vt and tape.draw(2, "sched.join"):
                self.sched_probes["join"] += 1
                take = True
        if take:
            h = self._pop_due(None)
            if h is not None:
                ready.append(h)
                if tape is not None and heap and heap[0][0] <= self._vt:
                    groups = set()
                    if h._group is not None:
                        groups.add(h._group)
                    # batching: further due timers may join this iteration
                    while heap and heap[0][0] <= self._vt:
                        self._purge()
                        if not heap or heap[0][0] > self._vt:
                            break
                        if not tape.draw(2, "sched.batch"):
                            break
                        h2 = self._pop_due(groups)
                        if h2 is None:
                            break
                        self.sched_probes["batch"] += 1
                        if h2._group is not None:
                            groups.add(h2._group)
                        ready.append(h2)
        ntodo = len(ready)
        for _ in range(ntodo):
            handle = ready.popleft()
            if handle._cancelled:
                continue
            handle._run()
        handle = None

    # ----------------------------------------------------------------- helpers
    def pending_timers(self) -> int:
        return sum(1 for e in self._heap if not e[2]._cancelled)


class TimeShim:
    """Stands in for the `time` module inside bellows/zigpy modules."""

    def __init__(self, loop: SimLoop):
        self._loop = loop

    def monotonic(self) -> float:
        return self._loop.time()

    def time(self) -> float:
        return 1_700_000_000.0 + self._loop.time()

    def perf_counter(self) -> float:
        return self._loop.time()


def run_sim(loop: SimLoop, main, *, teardown: bool = True):
    """Run coroutine `main` on `loop`. Returns (outcome, value).

    outcome: 'done' (value = result), 'raised' (value = exception),
    'hang' (Quiescent), 'cap' (StepCap)."""
    asyncio.set_event_loop(loop)
    task = None
    try:
        task = loop.create_task(main, name="main")
        try:
            loop.run_until_complete(task)
            return "done", task.result()
        except Quiescent as e:
            return "hang", e
        except StepCap as e:
            return "cap", e
        except BaseException as e:  # raised by main itself
            if task.done() and not task.cancelled() and task.exception() is e:
                return "raised", e
            raise
    finally:
        loop.recording = False
        if teardown:
            _teardown(loop)
        asyncio.set_event_loop(None)


def _teardown(loop: SimLoop):
    loop.tape = None
    loop.max_iters = loop.iters + 2000
    try:
        for _ in range(5):
            tasks = [t for t in asyncio.all_tasks(loop) if not t.done()]
            if not tasks:
                break
            for t in tasks:
                t.cancel()

            async def _wait(ts=tasks):
                await asyncio.gather(*ts, return_exceptions=True)

            try:
                loop.run_until_complete(_wait())
            except (Quiescent, StepCap, Exception):
                break
    finally:
        try:
            loop.close()
        except Exception:
            pass
