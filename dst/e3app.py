"""E3 with the real ControllerApplication on top (zigpy base application real, no database)."""
from __future__ import annotations

import bellows.zigbee.application as appmod
import zigpy.config as zc

from . import e3

COMPONENTS = {
    "real": e3.COMPONENTS["real"] + ["bellows.zigbee.application.ControllerApplication (connect, start_network and the method under test)",
                                     "bellows.zigbee.util, bellows.zigbee.repairs, bellows.multicast.Multicast", "zigpy.application.ControllerApplication (base class, zigpy 2.2.0)"],
    "simulated": e3.COMPONENTS["simulated"] + ["zigpy.util.Requests compatibility shim (dst.compat; the installed zigpy no longer ships it)",
                                                "no database; packet_received / handle_join / handle_leave / connection_lost replaced on the instance by recorders"],
}


class AppRig(e3.StackRig):
    def __init__(self, tape, **kw):
        kw.setdefault("fast_line", True)
        kw.setdefault("chunking", False)
        kw.setdefault("max_iters", 5_000_000)
        kw.setdefault("max_vt", 1e9)
        super().__init__(tape, **kw)
        self.app = None
        self.packets = []
        self.joins = []
        self.leaves = []
        self.lost = []

    def make_app(self, **extra):
        cfg = {zc.CONF_DEVICE: {zc.CONF_DEVICE_PATH: self.path}, "use_thread": False}
        cfg.update(extra)
        app = appmod.ControllerApplication(cfg)
        rig = self
        app.packet_received = lambda pkt: rig.packets.append((rig.loop.time(), pkt))
        app.handle_join = lambda nwk, ieee, parent_nwk, *a, **k: rig.joins.append((rig.loop.time(), int(nwk), bytes(ieee.serialize()), int(parent_nwk)))
        app.handle_leave = lambda nwk, ieee, *a, **k: rig.leaves.append((rig.loop.time(), int(nwk), bytes(ieee.serialize())))
        app.connection_lost = lambda exc: rig.lost.append((rig.loop.time(), exc))
        self.app = app
        return app

    async def start_app(self, **extra):
        """connect() + start_network() on an NCP that has a formed network (ncp.preform())."""
        app = self.make_app(**extra)
        # the coordinator device initialisation sends three ZDO requests to itself and waits for their confirmations;
        # answer them like firmware does so start-up does not sit out three 120 s APS time-outs
        self.ncp.auto_confirm = True
        await app.connect()
        self.ezsp = app._ezsp
        await app.start_network()
        return app
