"""Check driver: sweeps + seeded random runs on a process pool, minimisation,
replay files, evidence, known findings.

Exit codes: 0 held; 1 violation (prints VIOLATION line); 2 harness error.
"""
from __future__ import annotations

import argparse
import collections
import concurrent.futures as cf
import faulthandler
import hashlib
import importlib
import json
import multiprocessing
import os
import subprocess
import sys
import time
import traceback

from .tape import Tape, mix_seed

VERIF = os.path.dirname(os.path.dirname(os.path.abspath(__file__)))
KNOWN_FILE = os.path.join(VERIF, "known_findings.json")


def load_prop(pid: str):
    return importlib.import_module(f"dst.props.{pid.lower()}")


# ------------------------------------------------------------------ results
def new_agg():
    return {
        "runs": 0,
        "faults": collections.Counter(),
        "probes": collections.Counter(),
        "sim_s": 0.0,
        "iters": 0,
        "sigs": set(),
        "nontrivial": 0,
        "viol": [],  # (order_key, spec, clause, key, text)
        "errors": [],  # (spec, traceback)
        "samples": [],
        "per_scenario": collections.Counter(),
        "digests": {},
    }


def merge(a, b):
    a["runs"] += b["runs"]
    a["faults"].update(b["faults"])
    a["probes"].update(b["probes"])
    a["sim_s"] += b["sim_s"]
    a["iters"] += b["iters"]
    a["sigs"] |= b["sigs"]
    a["nontrivial"] += b["nontrivial"]
    a["viol"].extend(b["viol"])
    a["errors"].extend(b["errors"])
    a["per_scenario"].update(b["per_scenario"])
    if len(a["samples"]) < 6:
        a["samples"].extend(b["samples"][: 6 - len(a["samples"])])
    a["digests"].update(b["digests"])


def run_one(prop, spec, want_detail=False):
    """spec: dict(scenario, params, seed, tape?). Returns (result, tape)."""
    if spec.get("tape") is not None:
        tape = Tape(values=spec["tape"], want_labels=want_detail)
    else:
        tape = Tape(seed=spec["seed"], want_labels=want_detail)
    res = prop.run(spec["scenario"], spec.get("params") or {}, tape, detail=want_detail)
    return res, tape


def _batch(pid, specs, order0, want_digests, sample_every):
    faulthandler.dump_traceback_later(600, exit=True)
    prop = load_prop(pid)
    agg = new_agg()
    for i, spec in enumerate(specs):
        try:
            res, tape = run_one(prop, spec)
        except Exception:
            agg["errors"].append((spec, traceback.format_exc()))
            continue
        agg["runs"] += res.get("evals", 1)
        agg["per_scenario"][spec["scenario"]] += res.get("evals", 1)
        agg["faults"].update(res.get("faults") or {})
        agg["probes"].update(res.get("probes") or {})
        agg["sim_s"] += res.get("vt", 0.0)
        agg["iters"] += res.get("iters", 0)
        if res.get("sigs") is not None:
            agg["sigs"].update(res["sigs"])
            agg["nontrivial"] += len(res["sigs"])
        elif res.get("nontrivial", True):
            agg["nontrivial"] += 1
            sig = res.get("sig")
            if sig is not None:
                agg["sigs"].add(sig)
        if want_digests:
            agg["digests"][_spec_id(spec)] = res.get("digest")
        for clause, key, text in res.get("viol") or ():
            agg["viol"].append((order0 + i, spec, clause, key, text))
        if sample_every and i % sample_every == 0 and len(agg["samples"]) < 2 and res.get("sample") is not None:
            agg["samples"].append(res["sample"])
    faulthandler.cancel_dump_traceback_later()
    return agg


def _spec_id(spec):
    return json.dumps([spec["scenario"], spec.get("params"), spec.get("seed")], sort_keys=True, default=str)


# ------------------------------------------------------------- known findings
def load_known():
    try:
        with open(KNOWN_FILE) as f:
            return json.load(f).get("findings", [])
    except FileNotFoundError:
        return []


def is_known(known, pid, clause, key):
    for e in known:
        if e.get("status") != "open" or e.get("property") != pid:
            continue
        if e.get("clause") == clause and e.get("key") == key:
            return e
    return None


# --------------------------------------------------------------- minimisation
def minimise(prop, spec, clause, budget=300, key=None, wall_s=120.0):
    """Delta-debug the tape; the violated clause id and the violation key are preserved (so that minimising an unlisted
    violation can never drift into a listed known finding of the same clause)."""
    calls = [0]
    t_end = time.time() + wall_s

    def fails(values):
        if time.time() > t_end:
            calls[0] = budget  # wall budget used up: stop shrinking, keep what we have
            return None
        calls[0] += 1
        s = dict(spec, tape=values)
        try:
            res, tape = run_one(prop, s)
        except Exception:
            return None
        for c, k, t in res.get("viol") or ():
            if c == clause and (key is None or k == key):
                return (list(tape.rec), k, t)
        return None

    base = None
    if spec.get("tape") is None:
        res, tape = run_one(prop, spec)
        cur = list(tape.rec)
    else:
        cur = list(spec["tape"])
    r = fails(cur)
    if r is None:
        return None
    cur, key, text = r
    # (a) cut the tail
    lo = 0
    hi = len(cur)
    while lo < hi and calls[0] < budget:
        mid = (lo + hi) // 2
        r = fails(cur[:mid])
        if r is not None:
            cur, key, text = r[0][:mid], r[1], r[2]
            hi = mid
        else:
            lo = mid + 1
    cur = cur[:hi]
    # (b) zero blocks
    size = max(1, len(cur) // 2)
    while size >= 1 and calls[0] < budget:
        i = 0
        while i < len(cur) and calls[0] < budget:
            blk = cur[i:i + size]
            if any(blk):
                cand = cur[:i] + [0] * len(blk) + cur[i + size:]
                r = fails(cand)
                if r is not None:
                    cur, key, text = cand, r[1], r[2]
            i += size
        if size == 1:
            break
        size //= 2
    # (c) lower individual entries
    for i in range(len(cur)):
        if calls[0] >= budget:
            break
        v = cur[i]
        while v > 1 and calls[0] < budget:
            nv = v // 2
            cand = cur[:i] + [nv] + cur[i + 1:]
            r = fails(cand)
            if r is None:
                break
            cur, key, text = cand, r[1], r[2]
            v = nv
    # strip trailing zeros (tape returns 0 past its end)
    while cur and cur[-1] == 0:
        cur.pop()
    t_end = time.time() + 600.0
    r = fails(cur)
    if r is None:  # pragma: no cover - stripping zeros is semantics-preserving
        return None
    return {"tape": cur, "key": r[1], "text": r[2], "replays": calls[0]}


def write_replay(pid, spec, clause, key, text, mini, prop):
    rdir = os.environ.get("VERIF_REPLAY_DIR") or os.path.join(VERIF, "replays")  # sensitivity tools point this at their scratch directory
    os.makedirs(rdir, exist_ok=True)
    tape = mini["tape"] if mini else spec.get("tape")
    out = {
        "property": pid,
        "engine": getattr(prop, "ENGINE", ""),
        "scenario": spec["scenario"],
        "params": spec.get("params") or {},
        "seed": spec.get("seed"),
        "tape": tape,
        "clause": clause,
        "key": key,
        "text": text,
        "minimised": bool(mini),
        "minimise_replays": mini["replays"] if mini else 0,
    }
    # human-readable rendering of the schedule and fault trace
    try:
        res, t = run_one(prop, dict(spec, tape=tape) if tape is not None else spec, want_detail=True)
        out["trace"] = res.get("trace")
        out["tape_labels"] = t.labels[:400]
    except Exception:
        out["trace"] = ["<rendering failed: %s>" % traceback.format_exc(limit=1)]
    h = hashlib.sha256(json.dumps([spec["scenario"], spec.get("params"), spec.get("seed"), tape], sort_keys=True, default=str).encode()).hexdigest()[:10]
    path = os.path.join(rdir, f"{pid}-{clause}-{h}.json")
    with open(path, "w") as f:
        json.dump(out, f, indent=1, default=str)
    return path


def replay_file(path, quiet=False):
    """Returns list of (clause, key, text) that the replay reproduces."""
    with open(path) as f:
        rp = json.load(f)
    prop = load_prop(rp["property"])
    spec = {"scenario": rp["scenario"], "params": rp.get("params") or {}, "seed": rp.get("seed"), "tape": rp.get("tape")}
    res, _ = run_one(prop, spec, want_detail=not quiet)
    return rp, res


# ----------------------------------------------------------------------- main
def chunked(it, n):
    buf = []
    for x in it:
        buf.append(x)
        if len(buf) >= n:
            yield buf
            buf = []
    if buf:
        yield buf


def main(argv=None):
    ap = argparse.ArgumentParser(prog="check")
    ap.add_argument("prop")
    ap.add_argument("--tier", default=os.environ.get("VERIF_TIER", "quick"), choices=["quick", "thorough"])
    ap.add_argument("--replay")
    ap.add_argument("--seed", type=int, default=int(os.environ.get("VERIF_SEED", "0") or 0))
    ap.add_argument("--budget", type=float, default=None, help="wall seconds for random runs")
    ap.add_argument("--runs", type=int, default=None, help="number of random runs (overrides tier default)")
    ap.add_argument("--jobs", type=int, default=int(os.environ.get("VERIF_JOBS", "0") or 0))
    ap.add_argument("--no-evidence", action="store_true")
    ap.add_argument("--no-sweeps", action="store_true")
    ap.add_argument("--digests", help="write per-run digests to this file (determinism self-test)")
    ap.add_argument("--all-violations", action="store_true", help="list every violating run (development)")
    args = ap.parse_args(argv)

    if args.prop.startswith("selftest"):
        from . import selftest
        if args.prop == "selftest-reference":
            return selftest.main_reference(args)
        return selftest.main(args)

    pid = args.prop.upper()
    prop = load_prop(pid)
    known = load_known()

    if args.replay:
        rp, res = replay_file(args.replay)
        mine = [v for v in res.get("viol") or () if v[0].startswith(pid)]
        for line in res.get("trace") or ():
            print("  ", line)
        if mine:
            for c, k, t in mine:
                print(f"clause={c} key={k}: {t}")
            print(f"VIOLATION property={pid} replay={args.replay}")
            return 1
        print(f"replay {args.replay}: no violation of {pid}")
        return 0

    t0 = time.time()
    jobs = args.jobs or min(16, os.cpu_count() or 1)
    tier = args.tier
    plan = prop.plan(tier)
    budget = args.budget if args.budget is not None else float(os.environ.get("VERIF_BUDGET_S", 0) or 0) or plan.get("budget_s", 60)
    nrandom = args.runs if args.runs is not None else plan.get("runs")
    if args.budget is not None and args.runs is None:
        nrandom = None  # budget-driven

    out_lines = []
    # 1. known-finding witnesses
    known_hit = []
    for e in known:
        if e.get("property") != pid or not e.get("witness"):
            continue
        wpath = os.path.join(VERIF, e["witness"])
        try:
            rp, res = replay_file(wpath, quiet=True)
        except Exception:
            print(f"HARNESS-ERROR: cannot replay witness {wpath}\n{traceback.format_exc()}")
            return 2
        still = [v for v in res.get("viol") or () if v[0] == e["clause"] and v[1] == e["key"]]
        if e.get("status") == "open":
            if still:
                print(f"KNOWN-FINDING: property={pid} {e['clause']} {e['key']}: {e.get('text', '')}")
                known_hit.append(e)
            else:
                print(f"note: witness of open finding {e['clause']} {e['key']} no longer fails")
        else:  # fixed: regression case, must pass
            if still:
                c, k, t = still[0]
                print(f"clause={c} key={k}: {t}")
                print(f"VIOLATION property={pid} replay={wpath}")
                return 1

    agg = new_agg()
    ctx = multiprocessing.get_context("fork")
    want_digests = bool(args.digests)
    sweeps = [] if args.no_sweeps else list(plan.get("sweeps") or [])
    sweep_total = len(sweeps)
    exhaustive_note = plan.get("exhaustive")
    order = 0
    stop_on_first = not args.all_violations

    def submit_all(ex, specs_iter, bsize, deadline=None):
        nonlocal order
        futs = set()
        it = iter(specs_iter)
        exhausted = False
        found = False
        while True:
            while not exhausted and len(futs) < jobs * 2:
                if deadline is not None and time.time() > deadline:
                    exhausted = True
                    break
                try:
                    b = next(it)
                except StopIteration:
                    exhausted = True
                    break
                futs.add(ex.submit(_batch, pid, b, order, want_digests, max(1, len(b) // 2)))
                order += len(b)
            if not futs:
                break
            done, futs = cf.wait(futs, return_when=cf.FIRST_COMPLETED)
            for f in done:
                merge(agg, f.result())
            if stop_on_first and any(not is_known(known, pid, v[2], v[3]) and v[2].startswith(pid) for v in agg["viol"]):
                # let running batches finish (bounded), submit nothing new
                exhausted = True
                found = True
            if agg["errors"]:
                exhausted = True
        return found

    try:
        with cf.ProcessPoolExecutor(max_workers=jobs, mp_context=ctx) as ex:
            found = False
            if sweeps:
                bs = max(1, min(plan.get("sweep_batch", 200), (len(sweeps) + jobs * 4 - 1) // (jobs * 4)))
                specs = ({"scenario": sw[0], "params": sw[1], "seed": mix_seed(args.seed, pid, "sweep", i),
                          "tape": (sw[2] if len(sw) > 2 else (None if plan.get("sweep_random_tail") else []))}
                         for i, sw in enumerate(sweeps))
                found = submit_all(ex, chunked(specs, bs), bs)
            if not found and not agg["errors"]:
                rnd = plan.get("random") or []
                if rnd:
                    tw = sum(w for _, _, w in rnd)
                    deadline = t0 + budget if nrandom is None else t0 + max(budget * 4, 600)

                    def gen():
                        i = 0
                        while nrandom is None or i < nrandom:
                            # deterministic round-robin by weight
                            x = i % tw
                            for s, p, w in rnd:
                                if x < w:
                                    break
                                x -= w
                            yield {"scenario": s, "params": p, "seed": mix_seed(args.seed, pid, s, i), "tape": None}
                            i += 1

                    bs = plan.get("batch", 50)
                    submit_all(ex, chunked(gen(), bs), bs, deadline)
    except cf.process.BrokenProcessPool:
        print("HARNESS-ERROR: worker process died\n" + traceback.format_exc())
        return 2

    wall = time.time() - t0
    if agg["errors"]:
        spec, tb = agg["errors"][0]
        print(f"HARNESS-ERROR: {len(agg['errors'])} run(s) raised inside the simulator; first: {_spec_id(spec)}\n{tb}")
        return 2

    if args.digests:
        with open(args.digests, "w") as f:
            json.dump(agg["digests"], f, sort_keys=True)

    mine = sorted((v for v in agg["viol"] if v[2].startswith(pid)), key=lambda v: v[0])
    foreign = [v for v in agg["viol"] if not v[2].startswith(pid)]
    unknown = [v for v in mine if not is_known(known, pid, v[2], v[3])]
    kn = [v for v in mine if is_known(known, pid, v[2], v[3])]
    reported_known = {(e["clause"], e["key"]) for e in known_hit}
    for v in kn:
        if (v[2], v[3]) not in reported_known:
            reported_known.add((v[2], v[3]))
            e = is_known(known, pid, v[2], v[3])
            print(f"KNOWN-FINDING: property={pid} {v[2]} {v[3]}: {e.get('text', '')}")

    if args.all_violations and foreign:
        seen = collections.Counter()
        first = {}
        for v in foreign:
            seen[(v[2], v[3])] += 1
            first.setdefault((v[2], v[3]), v)
        for (c, k), n in seen.most_common(40):
            print(f"  foreign {n:6d} x {c} {k}: {first[(c, k)][4]} [{_spec_id(first[(c, k)][1])}]")
    rc = 0
    replay_path = None
    if unknown:
        if args.all_violations:
            seen = collections.Counter()
            for v in unknown:
                seen[(v[2], v[3])] += 1
            for (c, k), n in seen.most_common(40):
                print(f"  {n:6d} x {c} {k}")
        # candidates: the first occurrence of each distinct (clause, key), in run order. A violation that does not reproduce from its replay file in
        # a fresh interpreter depended on state left behind by an earlier run of the same worker process (possible only when the code under test
        # keeps process-wide state, which the unchanged tree does not): the next candidate is tried before giving up
        cands, seen_ck = [], set()
        for v in unknown:
            if (v[2], v[3]) not in seen_ck:
                seen_ck.add((v[2], v[3]))
                cands.append(v)
        confirmed = False
        for (_, spec, clause, key, text) in cands[:6]:
            mini = None
            try:
                mini = minimise(prop, spec, clause, budget=plan.get("minimise_budget", 300), key=key)
            except Exception:
                print("note: minimisation failed:\n" + traceback.format_exc())
            if mini:
                key, text = mini["key"], mini["text"]
            replay_path = write_replay(pid, spec, clause, key, text, mini, prop)
            # confirm in a fresh interpreter
            confirmed = _confirm(pid, replay_path)
            print(f"clause={clause} key={key}: {text}")
            if confirmed:
                break
            print("note: this violation did not reproduce from its replay file in a fresh interpreter (it depended on state an earlier run left in the worker process)")
            try:
                os.remove(replay_path)
            except OSError:
                pass
        if not confirmed:
            print("HARNESS-ERROR: no violation reproduced from its replay file in a fresh interpreter (nondeterminism)")
            return 2
        print(f"VIOLATION property={pid} replay={replay_path}")
        rc = 1

    if not args.no_evidence:
        write_evidence(pid, prop, plan, tier, args.seed, agg, wall, len(unknown), sweep_total, exhaustive_note, foreign, jobs)
    fired = {k: v for k, v in agg["faults"].items() if not k.endswith(".deliver")}
    print(f"{pid} {tier}: runs={agg['runs']} (sweep {sweep_total}) wall={wall:.1f}s sim={agg['sim_s']:.0f}s "
          f"distinct_nontrivial={len(agg['sigs'])} violations={len(unknown)} known={len(kn)} foreign={len(foreign)}")
    if fired:
        print("  faults fired: " + ", ".join(f"{k}={v}" for k, v in sorted(fired.items())))
    zero = [p for p in (getattr(prop, "PROBES", ()) or ()) if not agg["probes"].get(p)]
    if zero and tier == "thorough":
        print("  WARNING probes at zero: " + ", ".join(zero))
    return rc


def _confirm(pid, path):
    env = dict(os.environ)
    p = subprocess.run([sys.executable, "-m", "dst", pid, "--replay", path], cwd=VERIF, env=env,
                       capture_output=True, text=True, timeout=600)
    return p.returncode == 1 and f"VIOLATION property={pid}" in p.stdout


def write_evidence(pid, prop, plan, tier, seed, agg, wall, nviol, sweep_total, exhaustive_note, foreign, jobs):
    os.makedirs(os.path.join(VERIF, "evidence"), exist_ok=True)
    cov = {
        "evaluations": agg["runs"],
        "distinct_nontrivial": len(agg["sigs"]),
        "rule": getattr(prop, "RULE", ""),
        "samples": agg["samples"][:6] or ["<no sample recorded>"],
        # 'exhaustive' = the enumerated finite space the level claims was completed (fault_enumeration checks); exploration checks also sweep a
        # finite sub-space completely, reported as sweep_exhaustive + exhaustive_subspace, without claiming the property's space is finite
        "exhaustive": bool(exhaustive_note) and not nviol and prop.LEVEL == "fault_enumeration",
        "sweep_exhaustive": bool(exhaustive_note) and not nviol,
        "exhaustive_subspace": exhaustive_note or "",
        "sweep_specs": sweep_total,
        "per_scenario": dict(agg["per_scenario"]),
        "simulated_seconds": round(agg["sim_s"], 3),
        "loop_iterations": agg["iters"],
        "runs_per_hour": int(agg["runs"] / wall * 3600) if wall > 0 else 0,
        "worker_processes": jobs,
        "faults_fired": dict(sorted(agg["faults"].items())),
        "probes": dict(sorted(agg["probes"].items())),
        "probes_at_zero": [p for p in (getattr(prop, "PROBES", ()) or ()) if not agg["probes"].get(p)],
        "components": getattr(prop, "COMPONENTS", {}),
        "technique": getattr(prop, "TECHNIQUE", "deterministic simulation with fault injection"),
        "foreign_clause_violations": len(foreign),
    }
    ev = {
        "property_id": pid,
        "tier": tier,
        "seed": seed,
        "level": prop.LEVEL,
        "coverage": cov,
        "assumptions": list(getattr(prop, "ASSUMPTIONS", [])),
        "wall_s": round(wall, 2),
        "violations": nviol,
    }
    with open(os.path.join(VERIF, "evidence", f"{pid}.json"), "w") as f:
        json.dump(ev, f, indent=1, default=str)


if __name__ == "__main__":  # pragma: no cover
    sys.exit(main())
