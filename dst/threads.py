"""Engine E4 'threads': several SimLoops in several REAL threads under a baton-passing scheduler.

Exactly one thread runs at any time.  The tape decides who runs next
  * at the start of every event-loop iteration of every loop, and
  * at `sys.settrace` line events inside bellows/thread.py (pre-emption inside
    the proxy code itself).
A loop with nothing to do parks until another thread hands it work through
call_soon_threadsafe (what the self-pipe does on a real loop) or until the shared
virtual clock reaches its next timer.  If every thread is parked and no timer
is pending the run is a deadlock and is reported as a hang.
Threads started through loop.run_in_executor are created by the scheduler
(register, park, then run when given the baton), so the creation order and every
hand-over is a function of the tape alone.
"""
from __future__ import annotations

import asyncio
import heapq
import sys
import threading

from .loop import Quiescent, SimLoop, StepCap


class Abort(BaseException):
    """Raised inside parked threads when the run is torn down."""


class Baton:
    def __init__(self, tape, trace_file_suffix="bellows/thread.py", preempt_den=6, max_switches=200_000):
        self.tape = tape
        self.cv = threading.Condition()
        self.state = {}  # name -> 'runnable' | 'idle' | 'done'
        self.order = []  # names in registration order
        self.wake_at = {}
        self.loops = {}
        self.current = None
        self.vt = 0.0
        self.schedule = []  # names, one per scheduling decision that had a real choice or switched
        self.abort = False
        self.deadlock = False
        self.livelock = None
        self.line_events = 0
        self.max_line_events = 40_000  # (ordinary runs stay below 1 000)
        self.trace_suffix = trace_file_suffix
        self.preempt_den = preempt_den
        self.switches = 0
        self.max_switches = max_switches
        self.preemptions = 0
        self.threads = []
        self.nworkers = 0
        self.ident = {}

    # ----------------------------------------------------------- registration
    def register(self, name):
        with self.cv:
            self.state[name] = "runnable"
            self.order.append(name)
            self.ident[name] = threading.get_ident()
            self.cv.notify_all()

    def adopt_main(self, name="M"):
        self.register(name)
        self.current = name
        self._install_trace(name)

    def _install_trace(self, name):
        if self.preempt_den <= 0:
            return
        suffix = self.trace_suffix
        sched = self

        def local(frame, event, arg):
            if event == "line" and not sched.abort:
                sched.line_events += 1
                if sched.line_events > sched.max_line_events:
                    # code in the traced file is spinning without ever returning to its event loop (no step cap of a loop can see that):
                    # cut it here; the exception ends the spinning task, the run is reported as a live-lock by whoever looks at sched.livelock
                    sched.livelock = (name, frame.f_code.co_name, frame.f_lineno)
                    with sched.cv:
                        sched.abort = True  # tear the whole run down: every loop iteration and every parked thread sees it
                        sched.cv.notify_all()
                    raise Abort()
                sched.preempt_point(name)
            return local

        def tracer(frame, event, arg):
            if event == "call" and frame.f_code.co_filename.endswith(suffix):
                return local
            return None

        sys.settrace(tracer)

    # -------------------------------------------------------------- scheduling
    def _runnable(self):
        return [n for n in self.order if self.state.get(n) == "runnable"]

    def _give(self, me, choice):
        """Hand the baton to `choice` and wait until it comes back to `me` (caller holds cv)."""
        if choice != me:
            self.switches += 1
            if self.switches > self.max_switches:
                self.abort = True
                self.cv.notify_all()
                raise StepCap("thread switch cap reached")
            self.current = choice
            self.schedule.append(choice)
            self.cv.notify_all()
        self._wait_turn(me)

    def _wait_turn(self, me):
        while self.current != me:
            if self.abort:
                raise Abort()
            self.cv.wait(timeout=5.0)
        if self.abort:
            raise Abort()

    def yield_point(self, me, label="thr"):
        with self.cv:
            if self.abort:
                raise Abort()
            r = self._runnable()
            if len(r) > 1:
                choice = r[self.tape.draw(len(r), label)]
                if choice == me:
                    self.schedule.append(me)
                self._give(me, choice)

    def preempt_point(self, me):
        # a cheap coin first; the full decision only when the coin says so
        if self.current != me:
            return
        with self.cv:
            if len(self._runnable()) < 2:
                return
        if self.tape.draw(self.preempt_den, "preempt") == self.preempt_den - 1:
            self.preemptions += 1
            self.yield_point(me, "preempt.to")

    def wake(self, name):
        with self.cv:
            if self.state.get(name) == "idle":
                self.state[name] = "runnable"
                self.wake_at[name] = None

    def _next_after_block(self, me):
        """`me` cannot run (idle or done): choose who runs now (caller holds cv). Returns the name or None."""
        r = [n for n in self._runnable() if n != me]
        if r:
            return r[self.tape.draw(len(r), "thr") if len(r) > 1 else 0]
        timers = [(t, n) for n, t in self.wake_at.items() if t is not None and self.state.get(n) == "idle"]
        if timers:
            t0 = min(t for t, _ in timers)
            if t0 > self.vt:
                self.vt = t0
            due = [n for n in self.order if self.state.get(n) == "idle" and self.wake_at.get(n) is not None and self.wake_at[n] <= self.vt]
            for n in due:
                self.state[n] = "runnable"
                self.wake_at[n] = None
            return due[self.tape.draw(len(due), "thr") if len(due) > 1 else 0]
        return None

    def idle(self, me, wake_at):
        with self.cv:
            self.state[me] = "idle"
            self.wake_at[me] = wake_at
            nxt = self._next_after_block(me)
            if nxt is None:
                self.deadlock = True
                self.abort = True
                self.cv.notify_all()
                raise Quiescent(f"all threads parked at t={self.vt} (threads {dict(self.state)})")
            self.switches += 1
            self.current = nxt
            if nxt != me:
                self.schedule.append(nxt)
            self.cv.notify_all()
            self._wait_turn(me)
            self.state[me] = "runnable"

    def finish(self, me):
        with self.cv:
            self.state[me] = "done"
            nxt = self._next_after_block(me)
            if nxt is None:
                if any(s == "idle" for s in self.state.values()):
                    self.deadlock = True
                    self.abort = True
                self.current = None
            else:
                self.current = nxt
                self.schedule.append(nxt)
            self.cv.notify_all()

    # ----------------------------------------------------------------- threads
    def spawn(self, target, args, on_done):
        """Start a scheduler-managed thread: it registers, parks and runs `target(*args)` when given the baton."""
        self.nworkers += 1
        name = f"W{self.nworkers}"
        registered = threading.Event()

        def runner():
            self.register(name)
            self._install_trace(name)
            registered.set()
            try:
                with self.cv:
                    self._wait_turn(name)
                try:
                    res, exc = target(*args), None
                except Abort:
                    raise
                except BaseException as e:  # noqa: BLE001
                    res, exc = None, e
                on_done(res, exc)  # still holding the baton
            except Abort:
                pass
            except (Quiescent, StepCap):
                pass
            finally:
                sys.settrace(None)
                try:
                    self.finish(name)
                except Exception:  # pragma: no cover
                    pass

        th = threading.Thread(target=runner, name=name, daemon=True)
        self.threads.append(th)
        th.start()
        registered.wait(10.0)
        return name

    def shutdown(self):
        with self.cv:
            self.abort = True
            self.cv.notify_all()
        for th in self.threads:
            th.join(5.0)
        sys.settrace(None)


class ThreadedSimLoop(SimLoop):
    """A SimLoop that shares one virtual clock with its siblings and parks when it has nothing to do."""

    def __init__(self, sched: Baton, name: str, max_iters=100_000):
        super().__init__(tape=None, max_iters=max_iters)
        self.sched = sched
        self.name = name
        sched.loops[name] = self

    def time(self):
        return self.sched.vt

    def call_soon_threadsafe(self, callback, *args, context=None):
        h = super().call_soon_threadsafe(callback, *args, context=context)
        self.sched.wake(self.name)
        return h

    def _write_to_self(self):
        pass

    def run_in_executor(self, executor, func, *args):
        fut = self.create_future()

        def on_done(res, exc):
            def setter():
                if fut.cancelled():
                    return
                if exc is not None:
                    fut.set_exception(exc)
                else:
                    fut.set_result(res)

            if not self.is_closed():
                self.call_soon_threadsafe(setter)

        self.sched.spawn(func, args, on_done)
        return fut

    def _run_once(self):
        self.iters += 1
        if self.iters > self.max_iters:
            raise StepCap(f"iteration cap reached in loop {self.name}")
        sched = self.sched
        sched.yield_point(self.name)
        ready, heap = self._ready, self._heap
        while not ready:
            self._purge()
            if heap and heap[0][0] <= sched.vt:
                break
            if self._stopping:
                break
            sched.idle(self.name, heap[0][0] if heap else None)
            self._purge()
        while heap and heap[0][0] <= sched.vt:
            _w, _s, h = heapq.heappop(heap)
            h._scheduled = False
            if not h._cancelled:
                ready.append(h)
        n = len(ready)
        for _ in range(n):
            h = ready.popleft()
            if h._cancelled:
                continue
            h._run()
        h = None


class BatonLock:
    """Stands in for threading.Lock / RLock inside bellows/thread.py (only a changed tree has one there). A real lock would block a thread
    behind the scheduler's back while the holder is parked at a pre-emption point - a deadlock of the harness, not of bellows. This one hands the
    baton to the holder until the lock is free, so the interleaving stays a function of the tape."""

    def __init__(self, sched, reentrant=False):
        self.sched, self.reentrant = sched, reentrant
        self.owner, self.depth = None, 0

    def _me(self):
        tid = threading.get_ident()
        for n, i in self.sched.ident.items():
            if i == tid:
                return n
        return None

    def acquire(self, blocking=True, timeout=-1):
        me = self._me()
        if self.reentrant and self.owner is not None and self.owner == me:
            self.depth += 1
            return True
        while self.owner is not None:
            if not blocking or me is None:
                return False
            if self.owner == me:
                raise RuntimeError("BatonLock: a non-reentrant lock acquired twice by the same thread (self-deadlock in the code under test)")
            with self.sched.cv:
                if self.sched.abort:
                    raise Abort()
                self.sched._give(me, self.owner)
        self.owner, self.depth = me, 1
        return True

    def release(self):
        self.depth -= 1
        if self.depth <= 0:
            self.owner, self.depth = None, 0

    def locked(self):
        return self.owner is not None

    def __enter__(self):
        self.acquire()
        return self

    def __exit__(self, *a):
        self.release()


class _ThreadingShim:
    def __init__(self, sched, real):
        self._sched, self._real = sched, real

    def Lock(self):
        return BatonLock(self._sched)

    def RLock(self):
        return BatonLock(self._sched, reentrant=True)

    def __getattr__(self, name):
        return getattr(self._real, name)


class Policy(asyncio.DefaultEventLoopPolicy):
    def __init__(self, sched: Baton):
        super().__init__()
        self.sched = sched
        self.count = 0

    def new_event_loop(self):
        self.count += 1
        # the loop belongs to the thread that creates it (bellows creates it inside the new thread)
        me = None
        tid = threading.get_ident()
        for n, i in self.sched.ident.items():
            if i == tid:
                me = n
        return ThreadedSimLoop(self.sched, me or f"L{self.count}")


def _quiet_unraisable(unraisable, _orig=sys.unraisablehook):
    """Loops torn down with suspended coroutines (bodies cut by force_stop) make the GC complain on stderr; nothing else is hidden."""
    if isinstance(unraisable.exc_value, RuntimeError) and "ignored GeneratorExit" in str(unraisable.exc_value):
        return
    _orig(unraisable)


sys.unraisablehook = _quiet_unraisable


def run_threaded(tape, main_factory, preempt_den=6):
    """Run coroutine main_factory(sched, loop) on loop 'M' in the calling thread. Returns (outcome, value, sched)."""
    sched = Baton(tape, preempt_den=preempt_den)
    import bellows.thread as _bt

    _real_threading = _bt.__dict__.get("threading")
    if _real_threading is not None and not isinstance(_real_threading, _ThreadingShim):
        _bt.threading = _ThreadingShim(sched, _real_threading)  # (the pristine module does not import threading at all)
    old_policy = asyncio.get_event_loop_policy()
    asyncio.set_event_loop_policy(Policy(sched))
    sched.adopt_main("M")
    loop = ThreadedSimLoop(sched, "M")
    asyncio.set_event_loop(loop)
    outcome, value = None, None
    try:
        task = loop.create_task(main_factory(sched, loop), name="main")
        try:
            loop.run_until_complete(task)
            outcome, value = "done", task.result()
        except Quiescent as e:
            outcome, value = "hang", e
        except StepCap as e:
            outcome, value = "cap", e
        except Abort as e:
            outcome, value = ("hang", Quiescent("deadlock")) if sched.deadlock else ("cap", e)
        except BaseException as e:  # noqa: BLE001
            if task.done() and not task.cancelled() and task.exception() is e:
                outcome, value = "raised", e
            else:
                raise
    finally:
        sys.settrace(None)
        if _real_threading is not None:
            _bt.threading = _real_threading if not isinstance(_real_threading, _ThreadingShim) else _real_threading._real
        sched.shutdown()
        loop.recording = False
        try:
            for t in asyncio.all_tasks(loop):
                t.cancel()
            loop._ready.clear()
            loop.close()
        except Exception:
            pass
        asyncio.set_event_loop(None)
        asyncio.set_event_loop_policy(old_policy)
    return outcome, value, sched
