import sys

from dst.runner import main

sys.exit(main())
