"""Shared helper: decode an EZSP frame with the NCP-side tables (bookkeeping in property modules)."""
from .props.c08 import decodes  # noqa: F401
